// Package c18 decides property C18: checksummed and fixed-layout sysex helpers parse what
// they build.
package c18

import (
	"bytes"
	"fmt"
	"gitlab.com/gomidi/midi/v2/zverif/noise"
	"testing"

	"gitlab.com/gomidi/midi/v2/mmc"
	"gitlab.com/gomidi/midi/v2/sysex"
	"gitlab.com/gomidi/midi/v2/zverif/ev"
	"pgregory.net/rapid"
)

func TestMain(m *testing.M) { ev.Main(m) }

// ManufCase is one Roland-style manufacturer sysex value plus the corruptions to try.
type ManufCase struct {
	Manuf, Device, Model byte
	Request              bool
	Addr                 [3]byte
	Data                 ev.Hex   // data-set payload (Request == false)
	Size                 [3]byte  // requested size (Request == true)
	AllCorruptions       bool     // try every (position, value) pair
	Corrupt              [][2]int // else: these (position, value) pairs; position counts from the first address byte
}

// refBuild is the independent byte layout: F0 id dev model 11|12 a a a body... checksum F7.
func refBuild(c ManufCase) []byte {
	b := []byte{0xF0, c.Manuf, c.Device, c.Model, 0x12, c.Addr[0], c.Addr[1], c.Addr[2]}
	var body []byte
	if c.Request {
		b[4] = 0x11
		body = c.Size[:]
	} else {
		body = c.Data
	}
	b = append(b, body...)
	sum := 0
	for _, x := range b[5:] {
		sum += int(x)
	}
	cs := byte((128 - sum%128) % 128)
	b = append(b, cs, 0xF7)
	return b
}

func (c ManufCase) value() sysex.Manufacturer {
	v := sysex.Manufacturer{ManufacturerID: sysex.ManufacturerID(c.Manuf), DeviceID: c.Device, ModelID: c.Model,
		InfoRequest: c.Request, Address: c.Addr}
	if c.Request {
		v.NumReqBytes = c.Size
	} else {
		v.SendingData = append([]byte{}, c.Data...)
	}
	return v
}

func equalManuf(a, b sysex.Manufacturer) bool {
	return a.ManufacturerID == b.ManufacturerID && a.DeviceID == b.DeviceID && a.ModelID == b.ModelID &&
		a.InfoRequest == b.InfoRequest && a.Address == b.Address && a.NumReqBytes == b.NumReqBytes &&
		bytes.Equal(a.SendingData, b.SendingData)
}

func runManuf(c ManufCase) (res ev.Result) {
	if !c.Request && len(c.Data) == 0 {
		res.Skip = true // payload length 1..512 is the stated domain
		return
	}
	v := c.value()
	want := refBuild(c)
	var got []byte
	// the payload is handed over as a slice with spare capacity behind it: building the message
	// must not write into memory of the caller
	spare := []byte{0xA5, 0x5A, 0xA5, 0x5A}
	backing := append(append([]byte{}, v.SendingData...), spare...)
	if !c.Request {
		v.SendingData = backing[:len(v.SendingData)]
	}
	ev.Try(func() { // the caller may append to what it got, and overwrite it
		x := v.SysEx()
		_ = append(x, 0xEE, 0xEE, 0xEE, 0xEE)
		for i := range x {
			x[i] ^= 0xFF
		}
	})
	if p := ev.Try(func() { got = v.SysEx() }); p != "" {
		res.Violation = "SysEx() " + p
		return
	}
	if !bytes.Equal(backing[len(backing)-4:], spare) || (!c.Request && !bytes.Equal(backing[:len(c.Data)], c.Data)) {
		res.Violation = fmt.Sprintf("SysEx() wrote into the caller's memory: the bytes behind the payload slice changed from % X to % X", spare, backing[len(backing)-4:])
		return
	}
	cls := "dataset"
	if c.Request {
		cls = "request"
	}
	res.Classes = []string{cls}
	if len(c.Data) >= 128 {
		res.Classes = append(res.Classes, "payload>=128")
	}
	res.Nontrivial = want[len(want)-2] != 0
	if !bytes.Equal(got, want) {
		res.Violation = fmt.Sprintf("SysEx() = % X, reference layout = % X", got, want)
		return
	}
	sum := 0
	for _, x := range got[5 : len(got)-1] {
		sum += int(x)
	}
	if sum%128 != 0 {
		res.Violation = fmt.Sprintf("address+payload+checksum sum to %d mod 128 (want 0) in % X", sum%128, got)
		return
	}
	var back *sysex.Manufacturer
	var err error
	if p := ev.Try(func() { back, err = sysex.Parse(append([]byte{}, got...)) }); p != "" {
		res.Violation = "Parse " + p
		return
	}
	if err != nil {
		res.Violation = fmt.Sprintf("Parse(SysEx(v)) failed: %v (bytes % X)", err, got)
		return
	}
	if back == nil || !equalManuf(*back, v) {
		res.Violation = fmt.Sprintf("Parse(SysEx(v)) = %+v, want %+v", back, v)
		return
	}
	// parse, change the address of the parsed value, build again: the bytes that were parsed
	// must not change and the rebuilt message must parse to the changed value
	raw := append([]byte{}, got...)
	if p := ev.Try(func() {
		pv, err := sysex.Parse(raw)
		if err != nil {
			panic(err)
		}
		pv.Address[0] ^= 0x15
		pv.Address[2] = (pv.Address[2] + 1) & 0x7F
		re := pv.SysEx()
		if !bytes.Equal(raw, got) {
			panic(fmt.Sprintf("rebuilding a parsed and modified value changed the bytes it was parsed from: % X -> % X", got, raw))
		}
		pv2, err := sysex.Parse(re)
		if err != nil || !equalManuf(*pv2, *pv) {
			panic(fmt.Sprintf("parse - modify - build - parse: %v, got %+v want %+v", err, pv2, pv))
		}
	}); p != "" {
		res.Violation = p
		return
	}
	// a second value that differs from the first only by an edit that keeps length and checksum
	// (two payload or size bytes swapped, or one raised and one lowered), built right after it:
	// each value must give its own bytes
	if p := ev.Try(func() {
		w := v
		w.SendingData = append([]byte{}, v.SendingData...)
		changed := false
		if c.Request {
			if w.NumReqBytes[0] != w.NumReqBytes[2] {
				w.NumReqBytes[0], w.NumReqBytes[2] = w.NumReqBytes[2], w.NumReqBytes[0]
				changed = true
			} else if w.NumReqBytes[0] < 127 && w.NumReqBytes[1] > 0 {
				w.NumReqBytes[0]++
				w.NumReqBytes[1]--
				changed = true
			}
		} else if n := len(w.SendingData); n >= 2 {
			d := w.SendingData
			if d[0] != d[n-1] {
				d[0], d[n-1] = d[n-1], d[0]
				changed = true
			} else if d[0] < 127 && d[n-1] > 0 {
				d[0]++
				d[n-1]--
				changed = true
			}
		}
		if !changed {
			return
		}
		first := v.SysEx()
		second := w.SysEx()
		again := v.SysEx()
		if !bytes.Equal(first, got) || !bytes.Equal(again, got) {
			panic(fmt.Sprintf("building the same value again gives other bytes: % X, before % X", again, got))
		}
		pw, err := sysex.Parse(append([]byte{}, second...))
		if err != nil || !equalManuf(*pw, w) {
			panic(fmt.Sprintf("a value built directly after one with the same length and checksum: Parse(SysEx(w)) = %+v (%v), want %+v", pw, err, w))
		}
	}); p != "" {
		res.Violation = p
		return
	}
	// single byte corruptions of address / payload|size / checksum
	n := len(got) - 6 // positions 5 .. len-2
	try := func(pos, val int) string {
		if pos < 0 || pos >= n || val < 0 || val > 127 {
			return ""
		}
		i := 5 + pos
		if int(got[i]) == val {
			return ""
		}
		bad := append([]byte{}, got...)
		bad[i] = byte(val)
		var m *sysex.Manufacturer
		var e error
		if p := ev.Try(func() { m, e = sysex.Parse(bad) }); p != "" {
			return "Parse(corrupted) " + p
		}
		if e == nil {
			return fmt.Sprintf("Parse accepted a message whose byte %d was changed from %02X to %02X: % X -> %+v", i, got[i], val, bad, m)
		}
		return ""
	}
	if c.AllCorruptions {
		res.Classes = append(res.Classes, "all-corruptions")
		for pos := 0; pos < n; pos++ {
			for val := 0; val < 128; val++ {
				if s := try(pos, val); s != "" {
					res.Violation = s
					return
				}
			}
		}
	} else {
		for _, pv := range c.Corrupt {
			if s := try(pv[0], pv[1]); s != "" {
				res.Violation = s
				return
			}
		}
	}
	return
}

func b7() *rapid.Generator[byte] { return rapid.ByteRange(0, 127) }

func genManuf(t *rapid.T) ManufCase {
	c := ManufCase{Manuf: b7().Draw(t, "manuf"), Device: b7().Draw(t, "device"), Model: b7().Draw(t, "model")}
	c.Request = rapid.Bool().Draw(t, "request")
	for i := range c.Addr {
		c.Addr[i] = b7().Draw(t, "addr")
	}
	n := 0
	if c.Request {
		for i := range c.Size {
			c.Size[i] = b7().Draw(t, "size")
		}
		n = 3 + 3 + 1
	} else {
		ln := rapid.OneOf(rapid.IntRange(1, 16), rapid.IntRange(1, 512), rapid.SampledFrom([]int{1, 2, 127, 128, 129, 511, 512})).Draw(t, "len")
		c.Data = rapid.SliceOfN(b7(), ln, ln).Draw(t, "data")
		n = 3 + ln + 1
	}
	if n <= 24-6 || (n <= 64-6 && ev.Thorough()) {
		c.AllCorruptions = true
	} else {
		k := rapid.IntRange(1, 40).Draw(t, "ncorrupt")
		for i := 0; i < k; i++ {
			// bias towards the ends: first address byte, last payload byte, checksum
			pos := rapid.OneOf(rapid.IntRange(0, n-1), rapid.SampledFrom([]int{0, 2, 3, n - 2, n - 1})).Draw(t, "pos")
			c.Corrupt = append(c.Corrupt, [2]int{pos, int(b7().Draw(t, "val"))})
		}
	}
	return c
}

var manuf = ev.NewCheck("C18", "manufacturer",
	"rapid: manufacturer/device/model ids, 3-byte address, data-set payload of 1..512 7-bit bytes or 3-byte request size; oracle = independent byte layout + checksum sum + Parse(SysEx(v))==v + a sibling value with the same length and checksum (two bytes swapped) built right afterwards parses to itself + every/sampled single-byte corruption of address|payload|checksum must be rejected; non-trivial = checksum byte != 0; distinct by case hash",
	genManuf, runManuf)

func TestPropManufacturer(t *testing.T) { manuf.Rapid(t, 4000, 40000) }

// GoToCase / MsgCase: machine control.
type GoToCase struct{ Device, Hour, Minute, Second, Frame, SubFrame byte }

func runGoTo(c GoToCase) (res ev.Result) {
	g := mmc.GoTo{DeviceID: c.Device, Hour: c.Hour, Minute: c.Minute, Second: c.Second, Frame: c.Frame, SubFrame: c.SubFrame}
	want := []byte{0xF0, 0x7F, c.Device, 0x06, 0x44, 0x06, 0x01, c.Hour, c.Minute, c.Second, c.Frame, c.SubFrame, 0xF7}
	var got []byte
	var back mmc.GoTo
	var err error
	ev.Try(func() { // a caller that appends to and overwrites the message it got
		x := g.SysEx()
		_ = append(x, 0xEE, 0xEE)
		for i := range x {
			x[i] ^= 0xFF
		}
	})
	var sib []byte
	sibDev := (c.Device + 1) % 128
	if p := ev.Try(func() {
		got = g.SysEx()
		// the message is held while a second machine is sent to the same position and other
		// messages are built; only then is it looked at
		sg := g
		sg.DeviceID = sibDev
		sib = sg.SysEx()
		noise.Between()
		err = back.Parse(got)
	}); p != "" {
		res.Violation = p
		return
	}
	res.Nontrivial = c.Hour|c.Minute|c.Second|c.Frame|c.SubFrame != 0
	if wantSib := append(append([]byte{}, want[:2]...), append([]byte{sibDev}, want[3:]...)...); !bytes.Equal(sib, wantSib) {
		res.Violation = fmt.Sprintf("GoTo.SysEx() for device %d directly after the same position for device %d = % X, want % X", sibDev, c.Device, sib, wantSib)
		return
	}
	if !bytes.Equal(got, want) {
		res.Violation = fmt.Sprintf("GoTo.SysEx() = % X, want % X", got, want)
	} else if err != nil {
		res.Violation = fmt.Sprintf("GoTo.Parse(SysEx()) failed: %v", err)
	} else if back != g {
		res.Violation = fmt.Sprintf("GoTo round trip: got %+v want %+v", back, g)
	}
	return
}

var gotoCheck = ev.NewCheck("C18", "mmc-goto",
	"rapid: mmc.GoTo with all six fields over 0..127; oracle = fixed 13-byte layout and Parse(SysEx())==value, the message being held while the same position is built for another device id (which must carry its own id) and further messages are built; non-trivial = some time field != 0",
	func(t *rapid.T) GoToCase {
		return GoToCase{b7().Draw(t, "dev"), b7().Draw(t, "h"), b7().Draw(t, "m"), b7().Draw(t, "s"), b7().Draw(t, "f"), b7().Draw(t, "sf")}
	}, runGoTo)

func TestPropGoTo(t *testing.T) { gotoCheck.Rapid(t, 2000, 200000) }

type MsgCase struct{ Device, Command byte }

func runMsg(c MsgCase) (res ev.Result) {
	m := mmc.Message{DeviceID: c.Device, Command: mmc.Command(c.Command)}
	want := []byte{0xF0, 0x7F, c.Device, 0x06, c.Command, 0xF7}
	var got []byte
	var back mmc.Message
	var err error
	ev.Try(func() { // a caller that appends to and overwrites the message it got (e.g. patches the device id)
		x := m.SysEx()
		_ = append(x, 0xEE, 0xEE)
		for i := range x {
			x[i] ^= 0xFF
		}
	})
	if p := ev.Try(func() {
		got = m.SysEx()
		// the message is held while further commands are built (a batch); only then is it looked at
		_ = mmc.Message{DeviceID: (c.Device + 1) % 128, Command: mmc.Command(c.Command%0x3F + 1)}.SysEx()
		_ = mmc.Message{DeviceID: c.Device, Command: mmc.Command((c.Command+7)%0x3F + 1)}.SysEx()
		noise.Between()
		err = back.Parse(got)
	}); p != "" {
		res.Violation = p
		return
	}
	res.Nontrivial = true
	if !bytes.Equal(got, want) {
		res.Violation = fmt.Sprintf("Message.SysEx() = % X, want % X", got, want)
	} else if err != nil {
		res.Violation = fmt.Sprintf("Message.Parse(SysEx()) failed for % X: %v", got, err)
	} else if back.DeviceID != m.DeviceID || back.Command != m.Command || back.IsResponse || len(back.Data) != 0 {
		res.Violation = fmt.Sprintf("Message round trip: got %+v want %+v", back, m)
	}
	return
}

var msgCheck = ev.NewCheck("C18", "mmc-message",
	"exhaustive: mmc.Message for device ids 1..127 x single-byte commands 0x01..0x3F; oracle = fixed 6-byte layout and Parse(SysEx())==value, the message being held while further commands are built; every case non-trivial and distinct by construction",
	nil, runMsg)

func TestEnumMMCMessage(t *testing.T) {
	msgCheck.R.Exhaustive = true
	if ev.Shard() != 0 {
		return
	}
	for d := 1; d <= 127; d++ {
		for c := 1; c < 0x40; c++ {
			mc := MsgCase{byte(d), byte(c)}
			res := runMsg(mc)
			msgCheck.R.EvalEnum(true)
			if d == 1 && c < 3 {
				msgCheck.R.Sample(mc)
			}
			if res.Violation != "" {
				msgCheck.R.Fail(t, mc, "%s", res.Violation)
			}
		}
	}
}

func TestReplay(t *testing.T) { ev.ReplayAll(t) }

package ev

import (
	"encoding/json"
	"testing"

	"gitlab.com/gomidi/midi/v2/zverif/noise"

	"pgregory.net/rapid"
)

// Result is what evaluating the property on one case yields.
type Result struct {
	Violation  string   // "" = the property held on this case
	Nontrivial bool     // by the rule stated in the recorder
	Classes    []string // generator classes this case belongs to (histogram)
	Key        []byte   // identity for distinct counting (nil: JSON of the case)
	Skip       bool     // case outside the property's domain (counted as class "_skipped")
}

// Check couples a recorder, a generator and the executable property.
type Check[C any] struct {
	R   *Recorder
	Gen func(t *rapid.T) C
	Run func(c C) Result
}

var replayers = map[string]func(t *testing.T, raw json.RawMessage){}

// NewCheck creates the check and registers it for TestReplay under its name.
func NewCheck[C any](property, name, rule string, gen func(t *rapid.T) C, run func(c C) Result) *Check[C] {
	k := &Check[C]{R: New(property, name, rule), Gen: gen, Run: run}
	replayers[name] = func(t *testing.T, raw json.RawMessage) {
		var c C
		if err := json.Unmarshal(raw, &c); err != nil {
			t.Fatalf("cannot decode saved case: %v", err)
		}
		k.One(t, c)
	}
	return k
}

// One evaluates one case, records it and fails t on a violation.
func (k *Check[C]) One(t TB, c C) {
	t.Helper()
	noise.Before() // the process has a history: see package noise
	res := k.Run(c)
	if res.Skip {
		k.R.Class("_skipped", 1)
		return
	}
	k.R.Eval(res.Key, res.Nontrivial, c, res.Classes...)
	if res.Violation != "" {
		k.R.Fail(t, c, "%s", res.Violation)
	}
}

// Rapid drives the check with rapid: quick/thorough are the case counts per shard.
func (k *Check[C]) Rapid(t *testing.T, quick, thorough int) {
	SetupRapid(k.R.Property+"/"+k.R.Check, N(quick, thorough))
	rapid.Check(t, func(rt *rapid.T) {
		c := k.Gen(rt)
		k.One(rt, c)
	})
}

// ReplayAll runs every saved case (VERIF_REPLAY or regress dir) through its check.
func ReplayAll(t *testing.T) {
	for _, sc := range SavedCases() {
		fn := replayers[sc.Check]
		if fn == nil {
			t.Errorf("saved case %s names unknown check %q", sc.Path, sc.Check)
			continue
		}
		sc := sc
		t.Run(sc.Check, func(t *testing.T) {
			t.Logf("replaying %s", sc.Path)
			fn(t, sc.Case)
		})
	}
}

// Package ev is the evidence recorder, replay writer and run configuration shared by all
// property packages of the harness.
//
// A test process is configured only through the environment (set by /verif/bin/verif):
//
//	VERIF_TIER       quick | thorough
//	VERIF_SEED       integer, base seed of every random choice (rapid PRNG seed)
//	VERIF_SHARD      index of this process among VERIF_SHARDS processes
//	VERIF_SHARDS     number of processes working on the same property
//	VERIF_EVDIR      directory that receives one partial evidence file per (check, shard)
//	VERIF_REPLAYDIR  directory that receives replay files of violations
//	VERIF_REGRESS    directory with saved cases (regress/<id>) replayed by TestReplay
//	VERIF_REPLAY     a single replay file to re-run (bin/verif replay)
//	VERIF_KNOWN      comma separated keys of open known findings of this property
package ev

import (
	"encoding/binary"
	"encoding/json"
	"flag"
	"fmt"
	"hash/fnv"
	"os"
	"path/filepath"
	"runtime/debug"
	"runtime/metrics"
	"sort"
	"strconv"
	"strings"
	"sync"
	"testing"
	"time"

	"gitlab.com/gomidi/midi/v2/zverif/hx"
)

// Hex is a byte slice that is written as a hex string in JSON (cases stay readable).
type Hex = hx.B

func envInt(name string, def int) int {
	if v := os.Getenv(name); v != "" {
		if n, err := strconv.Atoi(v); err == nil {
			return n
		}
	}
	return def
}

// Tier returns "quick" or "thorough".
func Tier() string {
	if os.Getenv("VERIF_TIER") == "thorough" {
		return "thorough"
	}
	return "quick"
}

func Thorough() bool { return Tier() == "thorough" }

// N picks a count by tier.
func N(quick, thorough int) int {
	if Thorough() {
		return thorough
	}
	return quick
}

func Shard() int { return envInt("VERIF_SHARD", 0) }

// fileShard keeps the files of the race-detector processes apart from those of the normal
// processes, which use the same shard numbers.
func fileShard() int {
	if os.Getenv("VERIF_RACE") == "1" {
		return 100 + Shard()
	}
	return Shard()
}
func Shards() int {
	n := envInt("VERIF_SHARDS", 1)
	if n < 1 {
		n = 1
	}
	return n
}
func Seed() int64 { return int64(envInt("VERIF_SEED", 1)) }

// RapidSeed mixes the base seed, the shard and a per-check salt into a non-zero PRNG seed
// (rapid treats 0 as "pick a random one").
func RapidSeed(salt string) uint64 {
	h := fnv.New64a()
	var b [16]byte
	binary.LittleEndian.PutUint64(b[:8], uint64(Seed()))
	binary.LittleEndian.PutUint64(b[8:], uint64(Shard()))
	h.Write(b[:])
	h.Write([]byte(salt))
	s := h.Sum64() & 0x7fffffffffffffff
	if s == 0 {
		s = 1
	}
	return s
}

// Known reports whether key is listed as an open known finding for this property.
func Known(key string) bool {
	for _, k := range strings.Split(os.Getenv("VERIF_KNOWN"), ",") {
		if k == key && k != "" {
			return true
		}
	}
	return false
}

// SetupRapid sets rapid's flags for a check: case count, seed, no fail files.
func SetupRapid(salt string, checks int) {
	flag.Set("rapid.checks", strconv.Itoa(checks))
	flag.Set("rapid.seed", strconv.FormatUint(RapidSeed(salt), 10))
	flag.Set("rapid.nofailfile", "true")
	if Thorough() {
		flag.Set("rapid.shrinktime", "60s")
	} else {
		flag.Set("rapid.shrinktime", "15s")
	}
}

// Watchdog is the bound used for "terminates" claims on single library calls.
const Watchdog = 20 * time.Second

const maxHashes = 400000
const maxSamples = 6

// Recorder collects what one check of one property actually covered.
type Recorder struct {
	Property   string
	Check      string
	Rule       string
	Exhaustive bool
	Notes      []string

	mu          sync.Mutex
	evaluations int64
	nontrivEnum int64 // non-trivial cases that are distinct by construction (enumerations)
	hashes      map[uint64]struct{}
	saturated   bool
	classes     map[string]int64
	samples     []json.RawMessage
	violations  int
	start       time.Time
	flushed     bool
}

var (
	regMu     sync.Mutex
	recorders []*Recorder
)

// New creates a recorder; it is flushed by Flush (call from TestMain via ev.Main).
func New(property, check, rule string) *Recorder {
	r := &Recorder{Property: property, Check: check, Rule: rule, hashes: map[uint64]struct{}{}, classes: map[string]int64{}, start: time.Now()}
	regMu.Lock()
	recorders = append(recorders, r)
	regMu.Unlock()
	return r
}

func Hash(b []byte) uint64 {
	h := fnv.New64a()
	h.Write(b)
	return h.Sum64()
}

// Eval records one evaluated case. key identifies the case for distinct counting (nil: the
// case is hashed from sample's JSON form).
func (r *Recorder) Eval(key []byte, nontrivial bool, sample interface{}, classes ...string) {
	r.mu.Lock()
	defer r.mu.Unlock()
	r.evaluations++
	for _, c := range classes {
		r.classes[c]++
	}
	if nontrivial {
		r.classes["_nontrivial"]++
		if !r.saturated {
			if key == nil {
				key, _ = json.Marshal(sample)
			}
			r.hashes[Hash(key)] = struct{}{}
			if len(r.hashes) >= maxHashes {
				r.saturated = true
			}
		}
	}
	if sample != nil && nontrivial && len(r.samples) < maxSamples {
		// keep the 1st, 2nd, 4th, 8th ... non-trivial case so that samples are spread
		n := r.classes["_nontrivial"]
		if n&(n-1) == 0 || len(r.samples) < 2 {
			if b, err := json.Marshal(sample); err == nil && len(b) < 4000 {
				r.samples = append(r.samples, b)
			}
		}
	}
}

// EvalEnum records a case of an enumeration whose cases are pairwise distinct by
// construction, so no hash set is needed.
func (r *Recorder) EvalEnum(nontrivial bool, classes ...string) {
	r.mu.Lock()
	r.evaluations++
	if nontrivial {
		r.nontrivEnum++
	}
	for _, c := range classes {
		r.classes[c]++
	}
	r.mu.Unlock()
}

// AddEnum records n enumerated cases at once (nt of them non-trivial).
func (r *Recorder) AddEnum(n, nt int64, class string) {
	r.mu.Lock()
	r.evaluations += n
	r.nontrivEnum += nt
	if class != "" {
		r.classes[class] += n
	}
	r.mu.Unlock()
}

// Sample stores a sample explicitly (enumerations).
func (r *Recorder) Sample(sample interface{}) {
	r.mu.Lock()
	defer r.mu.Unlock()
	if len(r.samples) < maxSamples {
		if b, err := json.Marshal(sample); err == nil {
			r.samples = append(r.samples, b)
		}
	}
}

func (r *Recorder) Class(c string, n int64) {
	r.mu.Lock()
	r.classes[c] += n
	r.mu.Unlock()
}

type replayFile struct {
	Property string          `json:"property"`
	Check    string          `json:"check"`
	Detail   string          `json:"detail"`
	Seed     int64           `json:"seed"`
	Shard    int             `json:"shard"`
	Tier     string          `json:"tier"`
	Case     json.RawMessage `json:"case"`
}

// TB is the part of testing.TB / rapid.T used to report failures.
type TB interface {
	Fatalf(format string, args ...interface{})
	Helper()
}

// SaveViolation writes (overwrites) the replay file of this check and returns its path.
// Under rapid the last write comes from the re-run of the shrunk case, so the file that
// stays behind is the minimal reproduction.
func (r *Recorder) SaveViolation(c interface{}, detail string) string {
	r.mu.Lock()
	r.violations++
	r.mu.Unlock()
	dir := os.Getenv("VERIF_REPLAYDIR")
	if dir == "" {
		dir = filepath.Join(os.TempDir(), "verif-replay", r.Property)
	}
	os.MkdirAll(dir, 0o755)
	cb, err := json.Marshal(c)
	if err != nil {
		cb, _ = json.Marshal(fmt.Sprintf("%#v", c))
	}
	rf := replayFile{Property: r.Property, Check: r.Check, Detail: detail, Seed: Seed(), Shard: Shard(), Tier: Tier(), Case: cb}
	b, _ := json.MarshalIndent(rf, "", " ")
	path := filepath.Join(dir, fmt.Sprintf("%s-shard%d.json", r.Check, fileShard()))
	if os.Getenv("VERIF_REPLAY") != "" {
		// replaying: do not overwrite the file being replayed
		path = filepath.Join(dir, fmt.Sprintf("%s-replayed.json", r.Check))
	}
	os.WriteFile(path, b, 0o644)
	fmt.Printf("VERIF-VIOLATION property=%s check=%s replay=%s\n", r.Property, r.Check, path)
	return path
}

// Fail saves the violation and fails the test.
func (r *Recorder) Fail(t TB, c interface{}, format string, args ...interface{}) {
	t.Helper()
	detail := fmt.Sprintf(format, args...)
	p := r.SaveViolation(c, detail)
	t.Fatalf("VIOLATION %s/%s: %s (replay %s)", r.Property, r.Check, detail, p)
}

type partial struct {
	Property    string            `json:"property"`
	Check       string            `json:"check"`
	Shard       int               `json:"shard"`
	Rule        string            `json:"rule"`
	Exhaustive  bool              `json:"exhaustive"`
	Evaluations int64             `json:"evaluations"`
	NontrivEnum int64             `json:"nontrivial_enum"`
	Hashes      int               `json:"hashes"`
	Saturated   bool              `json:"saturated"`
	Classes     map[string]int64  `json:"classes"`
	Samples     []json.RawMessage `json:"samples"`
	Violations  int               `json:"violations"`
	WallS       float64           `json:"wall_s"`
	Notes       []string          `json:"notes,omitempty"`
}

// Flush writes the partial evidence (JSON + hash file) of this recorder.
func (r *Recorder) Flush() {
	r.mu.Lock()
	defer r.mu.Unlock()
	if r.flushed {
		return
	}
	r.flushed = true
	dir := os.Getenv("VERIF_EVDIR")
	if dir == "" || (r.evaluations == 0 && r.violations == 0) {
		return
	}
	os.MkdirAll(dir, 0o755)
	p := partial{Property: r.Property, Check: r.Check, Shard: fileShard(), Rule: r.Rule, Exhaustive: r.Exhaustive,
		Evaluations: r.evaluations, NontrivEnum: r.nontrivEnum, Hashes: len(r.hashes), Saturated: r.saturated,
		Classes: r.classes, Samples: r.samples, Violations: r.violations, WallS: time.Since(r.start).Seconds(), Notes: r.Notes}
	b, _ := json.MarshalIndent(p, "", " ")
	base := filepath.Join(dir, fmt.Sprintf("%s.%s.%d", r.Property, r.Check, fileShard()))
	os.WriteFile(base+".json", b, 0o644)
	hs := make([]uint64, 0, len(r.hashes))
	for h := range r.hashes {
		hs = append(hs, h)
	}
	sort.Slice(hs, func(i, j int) bool { return hs[i] < hs[j] })
	hb := make([]byte, 8*len(hs))
	for i, h := range hs {
		binary.LittleEndian.PutUint64(hb[8*i:], h)
	}
	os.WriteFile(base+".hashes", hb, 0o644)
}

// Main is used as TestMain body: runs the tests and flushes all recorders.
func Main(m *testing.M) {
	code := m.Run()
	regMu.Lock()
	for _, r := range recorders {
		r.Flush()
	}
	regMu.Unlock()
	os.Exit(code)
}

// Try runs f and converts a panic into a returned description: the panic value and the
// frames of the library under test (file:line), not the whole stack.
func Try(f func()) (panicked string) {
	defer func() {
		if p := recover(); p != nil {
			var frames []string
			for _, l := range strings.Split(string(debug.Stack()), "\n") {
				l = strings.TrimSpace(l)
				if strings.HasPrefix(l, "/") && !strings.Contains(l, "/zverif/") && !strings.Contains(l, "/harness/") &&
					!strings.Contains(l, "/src/runtime/") && !strings.Contains(l, "/src/testing/") && len(frames) < 6 {
					if i := strings.Index(l, " +0x"); i > 0 {
						l = l[:i]
					}
					frames = append(frames, l)
				}
			}
			panicked = fmt.Sprintf("panic: %v [at %s]", p, strings.Join(frames, " <- "))
		}
	}()
	f()
	return ""
}

// TryTimeout runs f in a goroutine; it returns "" on normal return, the panic description,
// or "timeout" if f did not return within d (the goroutine is leaked in that case).
func TryTimeout(d time.Duration, f func()) string {
	done := make(chan string, 1)
	go func() {
		done <- Try(f)
	}()
	select {
	case s := <-done:
		return s
	case <-time.After(d):
	}
	// The bound d is generous for the call itself; if it is exceeded the machine may simply be
	// overloaded (other checks, builds). Give the call ten times as long again before it is
	// reported as not returning, so that load alone cannot raise an alarm; a genuine endless
	// loop or dead-lock is still reported, only later.
	select {
	case s := <-done:
		return s
	case <-time.After(10 * d):
		return fmt.Sprintf("timeout: call did not return within %v", 11*d)
	}
}

// SavedCase is a case file from regress/<id>/ or a replay file.
type SavedCase struct {
	Path  string
	Check string
	Case  json.RawMessage
}

// SavedCases lists the cases TestReplay must run: the single VERIF_REPLAY file, or all of
// VERIF_REGRESS (only in shard 0).
func SavedCases() []SavedCase {
	var files []string
	if f := os.Getenv("VERIF_REPLAY"); f != "" {
		files = []string{f}
	} else if d := os.Getenv("VERIF_REGRESS"); d != "" && Shard() == 0 {
		m, _ := filepath.Glob(filepath.Join(d, "*.json"))
		sort.Strings(m)
		files = m
	}
	var out []SavedCase
	for _, f := range files {
		b, err := os.ReadFile(f)
		if err != nil {
			continue
		}
		var rf replayFile
		if json.Unmarshal(b, &rf) != nil {
			continue
		}
		out = append(out, SavedCase{Path: f, Check: rf.Check, Case: rf.Case})
	}
	return out
}

// ShardRange splits [0,n) into Shards() contiguous pieces and returns this shard's piece.
func ShardRange(n int64) (lo, hi int64) {
	s, k := int64(Shards()), int64(Shard())
	lo = n * k / s
	hi = n * (k + 1) / s
	return
}

var allocSample = []metrics.Sample{{Name: "/gc/heap/allocs:bytes"}}

func heapAllocs() uint64 {
	metrics.Read(allocSample)
	return allocSample[0].Value.Uint64()
}

// Measure runs f under the watchdog and returns the bytes allocated by the process while
// it ran (cumulative heap allocation counter; large allocations are accounted immediately,
// small ones when the allocating thread's cache is flushed, so the value can only
// under-estimate) and the panic/time-out description.
func Measure(d time.Duration, f func()) (alloc uint64, failed string) {
	before := heapAllocs()
	failed = TryTimeout(d, f)
	after := heapAllocs()
	if after > before {
		alloc = after - before
	}
	return
}

package noise

import (
	"bytes"
	"testing"

	"gitlab.com/gomidi/midi/v2/smf"
)

// the files of the history are what they are meant to be, and no operation panics on the tree
// the harness was written against
func TestFixtures(t *testing.T) {
	s, err := smf.ReadFrom(bytes.NewReader(smallFile))
	if err != nil || len(s.Tracks) != 2 || len(s.Tracks[0]) != 5 || len(s.Tracks[1]) != 6 {
		t.Fatalf("small file: %v %v", err, s)
	}
	b, err := smf.ReadFrom(bytes.NewReader(bigFile))
	if err != nil || len(b.Tracks) != 1 || len(b.Tracks[0][0].Message) != 70001 {
		t.Fatalf("big file: %v", err)
	}
	for i := 0; i < 16*30; i++ {
		func() {
			defer func() {
				if p := recover(); p != nil {
					t.Fatalf("operation %d panics: %v", i%16, p)
				}
			}()
			Before()
			Between()
		}()
	}
}

// Package noise gives every check a process history. A check process of its own only ever performs
// the operations of its property, one fresh value after the other, so whatever an operation leaves
// behind in the library (a pooled buffer that was not reset after a failure, a memo keyed by
// something incomplete, a package-level table, a backing array shared between values) never meets
// a later operation. The functions here perform small public-API operations whose results are
// thrown away and that, by the library's contract, cannot matter to anybody else:
//
//	Before  - called before every evaluated case: one operation of a rotating list of hostile
//	          history (reads that end early, writes that fail, out-of-range constructor calls,
//	          odd strings classified, lines without terminator, a port that is closed and used);
//	Between - called by checks between two steps of their own pipeline: neighbour values that
//	          stay alive and are extended (files, songs, messages, readers, listeners).
//
// Nothing here is an oracle: panics are swallowed, results ignored. The checks' own oracles see
// the consequences.
package noise

import (
	"bytes"
	"errors"
	"io"
	"os"
	"strings"
	"sync"
	"testing/iotest"

	"gitlab.com/gomidi/midi/v2"
	"gitlab.com/gomidi/midi/v2/drivers"
	"gitlab.com/gomidi/midi/v2/drivers/midicat"
	"gitlab.com/gomidi/midi/v2/drivers/testdrv"
	"gitlab.com/gomidi/midi/v2/mmc"
	"gitlab.com/gomidi/midi/v2/sequencer"
	"gitlab.com/gomidi/midi/v2/smf"
)

var (
	mu      sync.Mutex
	counter int
	// Off switches the history off (a check whose oracle measures allocation or time per case
	// may set it).
	Off bool
)

var loud = os.Getenv("VERIF_NOISE_LOUD") != ""

func quiet(f func()) {
	defer func() {
		if p := recover(); p != nil && loud {
			panic(p) // only when the package tests itself
		}
	}()
	f()
}

// smallFile: a two-track file with tempo, padded and empty metas, running status, a sysex.
var smallFile = []byte{
	'M', 'T', 'h', 'd', 0, 0, 0, 6, 0, 1, 0, 2, 0x01, 0xE0,
	'M', 'T', 'r', 'k', 0, 0, 0, 26,
	0x00, 0xFF, 0x51, 0x03, 0x07, 0xA1, 0x20,
	0x00, 0xFF, 0x00, 0x02, 0x00, 0x00,
	0x00, 0xFF, 0x4A, 0x01, 0x00,
	0x00, 0xFF, 0x01, 0x00,
	0x05, 0xFF, 0x2F, 0x00,
	'M', 'T', 'r', 'k', 0, 0, 0, 24,
	0x00, 0x90, 0x3C, 0x64,
	0x10, 0x3E, 0x64,
	0x00, 0xC0, 0x05,
	0x00, 0xE5, 0x10, 0x50,
	0x00, 0xF0, 0x03, 0x7E, 0x7F, 0xF7,
	0x08, 0xFF, 0x2F, 0x00,
}

type failAfter struct{ n int }

func (w *failAfter) Write(p []byte) (int, error) {
	if len(p) <= w.n {
		w.n -= len(p)
		return len(p), nil
	}
	k := w.n
	w.n = 0
	return k, errors.New("noise: destination failed")
}

type failingReader struct {
	r   io.Reader
	n   int
	err error
}

func (f *failingReader) Read(p []byte) (int, error) {
	if f.n <= 0 {
		return 0, f.err
	}
	if len(p) > f.n {
		p = p[:f.n]
	}
	k, err := f.r.Read(p)
	f.n -= k
	return k, err
}

var bigFile = func() []byte {
	payload := bytes.Repeat([]byte{0x5A}, 70000)
	body := append([]byte{0x00, 0xF0, 0x84, 0xA2, 0x70}, payload...) // 70000 = 84 A2 70
	body = append(body, 0x00, 0xFF, 0x2F, 0x00)
	n := len(body)
	f := []byte{'M', 'T', 'h', 'd', 0, 0, 0, 6, 0, 0, 0, 1, 0x00, 0x60, 'M', 'T', 'r', 'k', byte(n >> 24), byte(n >> 16), byte(n >> 8), byte(n)}
	return append(f, body...)
}()

// Before performs one operation of the hostile history.
func Before() {
	if Off {
		return
	}
	mu.Lock()
	counter++
	i := counter
	mu.Unlock()
	round := i / 16
	quiet(func() {
		switch i % 16 {
		case 0: // a read that ends early, from memory
			cut := []int{8, 13, 14, 22, 23, 29, 35, 40, 44, 48, 52, 56, 57, 60, 67, len(smallFile) - 1}[round%16]
			smf.ReadFrom(bytes.NewReader(smallFile[:cut]))
		case 1: // the same with the last bytes delivered together with io.EOF, or byte by byte
			cut := []int{8, 22, 56, 23, 57, 60, len(smallFile) - 1, 14}[round%8]
			if round%2 == 0 {
				smf.ReadFrom(iotest.DataErrReader(bytes.NewReader(smallFile[:cut])))
			} else {
				smf.ReadFrom(iotest.OneByteReader(bytes.NewReader(smallFile[:cut])))
			}
		case 2: // a complete read (padded and empty metas), then its value is scribbled over
			if s, err := smf.ReadFrom(bytes.NewReader(smallFile)); err == nil && s != nil {
				s.TimeAt(int64(round % 700))
				for _, tr := range s.Tracks {
					for _, e := range tr {
						if len(e.Message) > 0 && e.Message[0] < 0xF0 { // not smf.EOT, an exported variable
							for k := range e.Message {
								e.Message[k] ^= 0x2A
							}
						}
					}
				}
			}
		case 3: // a write that fails
			if s, err := smf.ReadFrom(bytes.NewReader(smallFile)); err == nil && s != nil {
				s.WriteTo(&failAfter{n: (round * 7) % (len(smallFile) + 3)})
			}
		case 4: // a source that fails with an error that is not io.EOF
			errs := []error{errors.New("noise: source failed"), io.ErrClosedPipe, io.ErrNoProgress, io.ErrUnexpectedEOF}
			smf.ReadFrom(&failingReader{r: bytes.NewReader(smallFile), n: (round * 5) % len(smallFile), err: errs[round%4]})
		case 5: // constructors with arguments out of range
			midi.ProgramChange(0, 200)
			midi.AfterTouch(19, 10)
			midi.NoteOn(200, 200, 200)
			midi.ControlChange(16, 128, 255)
			midi.Pitchbend(uint8(round%16), int16(round*37%16384-8192))
			midi.SPP(uint16(16383 + round%3))
			midi.PolyAfterTouch(255, 255, 255)
		case 6: // odd strings classified and printed
			_ = smf.MetaUndefined(0xA5, nil).Type()
			_ = smf.Message{0xFF, 0x93, 0x01, 0x00}.Type()
			_ = midi.Message{0x93, 60, 100}.Type()
			_ = midi.Message{0x10, 0x20, 0x30}.Type()
			_ = midi.Message{0x10, 0x20, 0x30}.String()
			_ = midi.Message{0xF7}.Type()
			_ = smf.Message{0xFF, 0x59, 0x02, 0x80, 0x01}.String()
			_ = midi.Message{0xE0 | byte(round%16), 0x00, 0x40}.String()
		case 7: // meta constructors and accessors
			var a, b, c, d, e uint8
			smf.MetaTimeSig(4, 4, 24, 8).GetMetaTimeSig(&a, &b, &c, &d)
			smf.MetaMeter(6, 8).GetMetaMeter(&a, &b)
			smf.MetaMeter(3, 128).GetMetaMeter(&a, &b)
			smf.MetaSMPTE(byte(round%24), 2, 3, 4, 5).GetMetaSMPTEOffsetMsg(&a, &b, &c, &d, &e)
			var bt []byte
			smf.MetaSequencerData([]byte{1, 2, 3, byte(round)}).GetMetaSeqData(&bt)
			var s string
			smf.MetaLyric("").GetMetaLyric(&s)
			smf.Message{0xFF, 0x05, 0x81, 0x00, 'l', 'a'}.GetMetaLyric(&s)
			var bpm float64
			smf.MetaTempo(float64(20 + round%400)).GetMetaTempo(&bpm)
		case 8: // machine control
			_ = mmc.Message{DeviceID: byte(round % 127), Command: mmc.Command(round % 0x40)}.SysEx()
			_ = mmc.GoTo{DeviceID: byte(round % 127), Hour: 1, Minute: 2, Second: 3, Frame: 4, SubFrame: 99}.SysEx()
			var g mmc.GoTo
			g.Parse([]byte{0xF0, 0x7F, 0x01})
		case 9: // lines of the helper protocol: no terminator at the end, extreme stamps, garbage
			in := []string{"12", "-2147483648 90\n-2147483647 80", "5 9X\n", "7 90 3C\n", "30 B00740\n1", "\n\n9"}[round%6]
			rd := strings.NewReader(in)
			for k := 0; k < 4; k++ {
				if _, _, err := midicat.ReadAndConvert(rd); err == io.EOF {
					break
				}
			}
		case 10: // a live decoder with other settings: small sysex buffer, all filters off
			r := drivers.NewReader(drivers.ListenConfig{SysExBufferSize: uint32(4 + round%9)}, func([]byte, int32) {})
			r.EachMessage([]byte{0x33, 0xF0, 1, 2, 3, 4, 5, 6, 7, 8, 9, 10, 11, 12, 13, 14, 15, 16, 0xF7, 0x90, 0x3C}, 3)
			r.EachMessage([]byte{0x40, 0xFE, 0xF8, 0xE5, 0x10}, 2147483000)
			r2 := drivers.NewReader(drivers.ListenConfig{SysEx: true, SysExBufferSize: 64, TimeCode: round%2 == 0, ActiveSense: round%3 == 0}, func([]byte, int32) {})
			r2.EachMessage([]byte{0xF0, 1, 2, 3}, 1)
		case 11: // a connection that is opened, used, closed and used again
			drv := testdrv.New("noise")
			ins, _ := drv.Ins()
			outs, _ := drv.Outs()
			stop, err := midi.ListenTo(ins[0], func(midi.Message, int32) {}, midi.UseSysEx())
			send, _ := midi.SendTo(outs[0])
			if send != nil {
				send(midi.NoteOn(1, 2, 3))
				send(midi.Message{0xF0, 0x01})
			}
			outs[0].Close()
			if send != nil {
				send(midi.NoteOn(1, 2, 4))
			}
			if err == nil {
				stop()
			}
			outs[0].Send([]byte{0x90, 1, 1})
			drv.Close()
		case 12: // a song exported
			s := sequencer.New()
			s.Ticks = smf.MetricTicks(8 * (3 + round%100))
			s.AddBar(sequencer.Bar{TimeSig: [2]uint8{uint8(1 + round%7), 4}, Events: sequencer.Events{{TrackNo: 1, Pos: 0, Duration: 3, Message: smf.Message(midi.NoteOn(0, 60, 100))}}})
			s.AddBar(sequencer.Bar{TimeSig: [2]uint8{3, 8}})
			f := s.ToSMF1()
			_ = f
		case 13: // a long payload that ends early (rarely: it costs 70 KB)
			if round%24 == 0 {
				smf.ReadFrom(bytes.NewReader(bigFile[:len(bigFile)-30000]))
			} else {
				smf.ReadFrom(bytes.NewReader(smallFile[:57+round%5]))
			}
		case 14: // a value is written twice, the first time with another division
			s := smf.NewSMF1()
			var tr smf.Track
			tr.Add(0, midi.NoteOn(2, 3, 4))
			tr.Close(uint32(round % 300))
			s.Add(tr)
			s.TimeFormat = smf.MetricTicks(uint16(1 + round%32000))
			s.WriteTo(io.Discard)
			s.TimeFormat = smf.SMPTE25(40)
			s.WriteTo(io.Discard)
		case 15: // conversion of a neighbour file and an in-place edit of its result
			if s, err := smf.ReadFrom(bytes.NewReader(smallFile)); err == nil && s != nil {
				src := smf.New()
				src.TimeFormat = s.TimeFormat
				if len(s.Tracks) > 1 {
					src.Add(s.Tracks[1])
					dst := src.ConvertToSMF1()
					for _, tr := range dst.Tracks {
						for _, e := range tr {
							if len(e.Message) > 0 && e.Message[0] < 0xF0 {
								e.Message[0] = e.Message[0]&0xF0 | 9
							}
						}
					}
				}
			}
		}
	})
}

// neighbours that stay alive across calls
var (
	nFiles []*smf.SMF
	nSongs []*sequencer.Song
	nMsgs  [][]byte
	nCalls int
)

// Between extends neighbour values while the caller holds a value of its own between two steps.
func Between() {
	if Off {
		return
	}
	mu.Lock()
	defer mu.Unlock()
	nCalls++
	k := nCalls
	// enumerations call this millions of times per process: after the first 4096 calls only
	// every 32nd one does the work
	if k > 4096 && k%32 != 0 {
		return
	}
	quiet(func() {
		// files: three constructors, kept for a while, every call adds a track to each
		if len(nFiles) == 0 || k%9 == 0 {
			nFiles = []*smf.SMF{smf.New(), smf.NewSMF1(), smf.NewSMF2()}
		}
		fresh := smf.New()
		for _, f := range append(nFiles, fresh) {
			var tr smf.Track
			tr.Add(uint32(k%200), midi.ControlChange(15, 127, byte(k%128)))
			tr.Close(1)
			f.Add(tr)
		}
		nFiles[k%3].WriteTo(io.Discard)
		nFiles[(k+1)%3].TimeAt(int64(1 + k%1000))
		// songs
		if len(nSongs) == 0 || k%7 == 0 {
			nSongs = []*sequencer.Song{sequencer.New(), sequencer.New()}
		}
		for _, s := range nSongs {
			s.AddBar(sequencer.Bar{TimeSig: [2]uint8{uint8(2 + k%5), 8}, Events: sequencer.Events{{TrackNo: 0, Pos: 1, Duration: 1, Message: smf.Message(midi.NoteOn(9, 35, 127))}}})
		}
		// messages of many kinds that stay alive
		if len(nMsgs) > 64 {
			nMsgs = nMsgs[:0]
		}
		nMsgs = append(nMsgs,
			smf.MetaSMPTE(23, 59, 59, 29, 99), smf.MetaTimeSig(7, 8, 12, 8), smf.MetaMeter(5, 2), smf.MetaSequencerData([]byte{9, 9, 9}),
			smf.MetaMarker("neighbour"), midi.Pitchbend(uint8(k%16), int16(k%8192)), midi.ProgramChange(uint8(k%16), uint8(k%128)),
			midi.SPP(uint16(k%16384)), mmc.Message{DeviceID: 9, Command: mmc.Command(1 + k%9)}.SysEx(),
			mmc.GoTo{DeviceID: byte(k % 100), Hour: 1, Minute: 2, Second: 3, Frame: 4, SubFrame: 5}.SysEx())
		var a, b uint8
		smf.Message(nMsgs[len(nMsgs)-8]).GetMetaMeter(&a, &b)
		// a live decoder with other settings
		drivers.NewReader(drivers.ListenConfig{SysExBufferSize: uint32(2 + k%5)}, func([]byte, int32) {}).EachMessage([]byte{0xF8, 0xFE, 0xF0, 1, 2, 3, 4, 5, 6, 7, 8, 0xF7}, 1)
	})
}

package c17

import (
	"bytes"
	"encoding/hex"
	"encoding/json"
	"fmt"
	"os"
	"path/filepath"
	"strings"
	"sync"
	"sync/atomic"
	"testing"
	"time"

	"gitlab.com/gomidi/midi/v2"
	"gitlab.com/gomidi/midi/v2/drivers"
	"gitlab.com/gomidi/midi/v2/drivers/midicatdrv"
	"gitlab.com/gomidi/midi/v2/zverif/cable"
	"gitlab.com/gomidi/midi/v2/zverif/ev"
	"pgregory.net/rapid"
)

// ---- part B: the process-backed driver against the stand-in helper ------------------------

type OpB struct {
	Kind      string // OpenOut CloseOut Send CloseOutWhileSending OpenIn CloseIn Listen Stop Inject
	Senders   int    `json:",omitempty"`
	PerSender int    `json:",omitempty"`
	Level     string `json:",omitempty"` // Listen: "drv" (In.Listen) or "midi" (midi.ListenTo)
	N         int    `json:",omitempty"` // Inject: number of records
	Again     bool   `json:",omitempty"` // call the operation twice (idempotence of Open/Close/stop)
	SysEx     bool   `json:",omitempty"` // Listen: with the sysex option on (then sysex records are injected too)
}

type CaseB struct {
	InPort, OutPort int
	Ops             []OpB
}

const callTimeout = 20 * time.Second
const arriveTimeout = 60 * time.Second

// call runs one library call under the watchdog.
func call(what string, f func()) string {
	if p := ev.TryTimeout(callTimeout, f); p != "" {
		return what + ": " + p
	}
	return ""
}

type listenerB struct {
	id      int
	mu      sync.Mutex
	got     []string // hex of received messages
	gotTS   []int32
	stopped atomic.Bool  // set after the stop function returned
	late    []string     // messages that arrived after stop returned
	gate    atomic.Value // chan struct{}: the next callback blocks until it is closed
	inside  atomic.Bool  // a callback is blocked at the gate
}

func (l *listenerB) recv(b []byte, ts int32) {
	if g, ok := l.gate.Load().(chan struct{}); ok && g != nil {
		l.inside.Store(true)
		<-g
		l.inside.Store(false)
	}
	h := fmt.Sprintf("%X", b)
	l.mu.Lock()
	if l.stopped.Load() {
		l.late = append(l.late, h)
	} else {
		l.got = append(l.got, h)
		l.gotTS = append(l.gotTS, ts)
	}
	l.mu.Unlock()
}

func (l *listenerB) snapshot() []string {
	l.mu.Lock()
	defer l.mu.Unlock()
	return append([]string{}, l.got...)
}

var histSeq int64

// liveMsg: unique messages of different lengths (the line protocol carries any length).
func liveMsg(id int) []byte {
	switch id % 4 {
	case 0:
		return []byte{0x90 | byte(id>>14&0x0F), byte(id >> 7 & 0x7F), byte(id & 0x7F)}
	case 1:
		return []byte{0xB0 | byte(id>>14&0x0F), byte(id >> 7 & 0x7F), byte(id & 0x7F)}
	case 2:
		return []byte{0xE0 | byte(id>>14&0x0F), byte(id >> 7 & 0x7F), byte(id & 0x7F)}
	default:
		return []byte{0xA0 | byte(id>>14&0x0F), byte(id >> 7 & 0x7F), byte(id & 0x7F)}
	}
}

// twoByte: a program change, whose message has only two bytes.
func twoByte(id int) []byte { return []byte{0xC0 | byte(id>>7&0x0F), byte(id & 0x7F)} }

func runB(c CaseB) (res ev.Result) {
	dir, err := os.MkdirTemp("", "verif-c17b-")
	if err != nil {
		panic(err)
	}
	defer os.RemoveAll(dir)
	os.Setenv("MIDICAT_STANDIN_DIR", dir)
	var drv *midicatdrv.Driver
	var ins []drivers.In
	var outs []drivers.Out
	if s := call("driver New/Ins/Outs", func() {
		var err error
		if drv, err = midicatdrv.New(); err != nil {
			panic(err)
		}
		if ins, err = drv.Ins(); err != nil {
			panic(err)
		}
		if outs, err = drv.Outs(); err != nil {
			panic(err)
		}
	}); s != "" {
		res.Violation = s
		return
	}
	if len(ins) != 2 || len(outs) != 2 {
		res.Violation = fmt.Sprintf("driver lists %d in and %d out ports, the helper offers 2 and 2", len(ins), len(outs))
		return
	}
	in, out := ins[c.InPort%2], outs[c.OutPort%2]
	defer func() {
		// leave no helper processes behind
		ev.TryTimeout(callTimeout, func() { drv.Close() })
	}()
	outLog := filepath.Join(dir, fmt.Sprintf("out-%d.log", c.OutPort%2))
	readLog := func() []string {
		b, _ := os.ReadFile(outLog)
		// the decoder accepts hex digits of both cases: compare lines in the driver's usual
		// upper-case form whatever case the encoder chose
		s := strings.Split(strings.ToUpper(string(b)), "\n")
		return s[:len(s)-1]
	}
	var (
		inOpen, outOpen                bool
		gen                            int
		fifo                           *os.File
		listeners                      []*listenerB
		active                         *listenerB
		stopFn                         func()
		activeSysEx                    bool
		nextID                         = 1
		mustLines                      []string // lines that must be in the out log, in per-sender order
		maybeLines                     = map[string]bool{}
		forbidden                      = map[string]bool{}
		maybeIn                        = map[string]bool{} // records injected while nobody listened
		concurrent, stopWhileInjecting bool
	)
	defer func() {
		if fifo != nil {
			fifo.Close()
		}
	}()
	waitFor := func(what string, cond func() bool) string {
		dl := time.Now().Add(arriveTimeout)
		for !cond() {
			if time.Now().After(dl) {
				return what
			}
			time.Sleep(2 * time.Millisecond)
		}
		return ""
	}
	checkOutLog := func(final bool) string {
		// wait until every line that must be there has arrived (or the time is up)
		waitFor("", func() bool {
			have := map[string]int{}
			for _, l := range readLog() {
				have[l]++
			}
			for _, m := range mustLines {
				if have[m] == 0 {
					return false
				}
			}
			return true
		})
		have := map[string]int{}
		order := map[string]int{}
		for i, l := range readLog() {
			have[l]++
			order[l] = i
		}
		must := map[string]bool{}
		for _, m := range mustLines {
			must[m] = true
			if have[m] != 1 {
				return fmt.Sprintf("line %q was sent on the open out port (Send returned nil) but appears %d times in what the helper received", m, have[m])
			}
		}
		for l, n := range have {
			if forbidden[l] {
				return fmt.Sprintf("line %q reached the helper although Send reported ErrPortClosed", l)
			}
			if !must[l] && !maybeLines[l] {
				return fmt.Sprintf("the helper received a line that was never sent (or a mangled one): %q", l)
			}
			if n > 1 {
				return fmt.Sprintf("line %q reached the helper %d times", l, n)
			}
		}
		// per sender order: mustLines holds each sender's lines in sending order
		last := map[byte]int{}
		for _, m := range mustLines {
			sender := m[3] // "0 9s...": low nibble of the status byte
			if p, ok := last[sender]; ok && order[m] < p {
				return fmt.Sprintf("lines of sender %c reached the helper out of order (%q overtook an earlier one)", sender, m)
			}
			last[sender] = order[m]
		}
		return ""
	}
	for step, op := range c.Ops {
		where := fmt.Sprintf("step %d (%s)", step, op.Kind)
		fail := func(format string, a ...interface{}) ev.Result {
			res.Violation = where + ": " + fmt.Sprintf(format, a...)
			return res
		}
		switch op.Kind {
		case "OpenOut", "CloseOut":
			times := 1
			if op.Again {
				times = 2
			}
			if op.Kind == "CloseOut" && outOpen {
				if s := checkOutLog(false); s != "" {
					return fail("%s", s)
				}
			}
			for k := 0; k < times; k++ {
				var err error
				if s := call(where, func() {
					if op.Kind == "OpenOut" {
						err = out.Open()
					} else {
						err = out.Close()
					}
				}); s != "" {
					return fail("%s", s)
				}
				if err != nil && op.Kind == "OpenOut" {
					return fail("out.Open (call %d) failed: %v", k+1, err)
				}
			}
			outOpen = op.Kind == "OpenOut"
			if out.IsOpen() != outOpen {
				return fail("out.IsOpen() = %v", out.IsOpen())
			}
		case "Send", "CloseOutWhileSending":
			var wg sync.WaitGroup
			type result struct {
				line string
				err  error
			}
			results := make([][]result, op.Senders)
			var blocked atomic.Value
			closing := op.Kind == "CloseOutWhileSending"
			if op.Senders > 1 {
				concurrent = true
			}
			for s := 0; s < op.Senders; s++ {
				msgs := make([][]byte, op.PerSender)
				for k := range msgs {
					// unique; the low nibble of the first byte carries the sender index
					m := []byte{0x90 | byte(s), byte(nextID >> 7 & 0x7F), byte(nextID & 0x7F)}
					if nextID%4 == 0 {
						m = append(m, 0x55, 0x66) // the line protocol carries any length
					}
					nextID++
					msgs[k] = m
				}
				wg.Add(1)
				go func(s int, msgs [][]byte) {
					defer wg.Done()
					for _, m := range msgs {
						var err error
						if p := ev.TryTimeout(callTimeout, func() { err = out.Send(m) }); p != "" {
							blocked.Store("out.Send: " + p)
							return
						}
						results[s] = append(results[s], result{fmt.Sprintf("0 %X", m), err})
					}
				}(s, msgs)
			}
			if closing {
				time.Sleep(time.Duration(op.N) * 100 * time.Microsecond)
				if s := call(where+" out.Close", func() { out.Close() }); s != "" {
					return fail("%s", s)
				}
			}
			wg.Wait()
			if b := blocked.Load(); b != nil {
				return fail("%v", b)
			}
			for s := range results {
				for _, r := range results[s] {
					switch {
					case r.err == nil && outOpen && !closing:
						mustLines = append(mustLines, r.line)
					case r.err == nil && outOpen && closing:
						maybeLines[r.line] = true
					case r.err == nil && !outOpen:
						return fail("out.Send on a closed port returned nil (line %q)", r.line)
					case r.err == drivers.ErrPortClosed && (!outOpen || closing):
						forbidden[r.line] = true
					default:
						return fail("out.Send returned %v (port open: %v)", r.err, outOpen)
					}
				}
			}
			if closing {
				outOpen = false
			}
			if s := checkOutLog(false); s != "" {
				return fail("%s", s)
			}
		case "DriverCloseWhileOpening":
			// Driver.Close (closes all open ports) runs while another port of the same driver is
			// being opened from a second goroutine; afterwards a quiet Driver.Close must leave
			// every port of the driver closed.
			if outOpen {
				if s := checkOutLog(false); s != "" {
					return fail("%s", s)
				}
			}
			other := outs[(c.OutPort+1)%2]
			var wg sync.WaitGroup
			var blocked atomic.Value
			wg.Add(2)
			var gate chan struct{}
			closeDelay, openDelay := 2*time.Millisecond, time.Duration(op.N)*100*time.Microsecond
			if active != nil && inOpen {
				// owned schedule: the listener callback is held at a gate, so that Driver.Close is
				// busy closing the in-port exactly while the other port is opened
				gate = make(chan struct{})
				active.gate.Store(gate)
				m := liveMsg(nextID)
				nextID++
				maybeIn[fmt.Sprintf("%X", m)] = true
				fmt.Fprintf(fifo, "%d %X\n", 1, m)
				l := active
				if s := waitFor("callback not reached", func() bool { return l.inside.Load() }); s != "" {
					close(gate)
					panic("harness: the gated listener callback was not reached")
				}
				closeDelay, openDelay = 0, 40*time.Millisecond
			}
			go func() {
				defer wg.Done()
				time.Sleep(closeDelay)
				if p := ev.TryTimeout(callTimeout, func() { drv.Close() }); p != "" {
					blocked.Store("Driver.Close: " + p)
				}
			}()
			go func() {
				defer wg.Done()
				time.Sleep(openDelay)
				if p := ev.TryTimeout(callTimeout, func() { other.Open() }); p != "" {
					blocked.Store("Open of another port during Driver.Close: " + p)
				}
			}()
			if gate != nil {
				time.Sleep(120 * time.Millisecond)
				active.gate.Store((chan struct{})(nil))
				close(gate)
			}
			wg.Wait()
			if active != nil {
				// closing the port ended this listening
				active.markSeen(active.snapshot())
				active.stopped.Store(true)
				active = nil
			}
			if b := blocked.Load(); b != nil {
				return fail("%v", b)
			}
			if s := call(where+" second Driver.Close", func() { drv.Close() }); s != "" {
				return fail("%s", s)
			}
			for i, p := range []drivers.Port{ins[0], ins[1], outs[0], outs[1]} {
				if p.IsOpen() {
					return fail("port %d (%s) is still open after Driver.Close returned (it was opened while an earlier Driver.Close was running and has been lost from the driver's list)", i, p)
				}
			}
			inOpen, outOpen = false, false
			if fifo != nil {
				fifo.Close()
				fifo = nil
			}
		case "OpenIn":
			gen++
			os.Setenv("MIDICAT_STANDIN_GEN", fmt.Sprint(gen))
			times := 1
			if op.Again {
				times = 2
			}
			for k := 0; k < times; k++ {
				var err error
				if s := call(where, func() { err = in.Open() }); s != "" {
					return fail("%s", s)
				}
				if err != nil {
					return fail("in.Open (call %d) failed: %v", k+1, err)
				}
			}
			if !inOpen {
				base := filepath.Join(dir, fmt.Sprintf("in-%d-%d", c.InPort%2, gen))
				if s := waitFor("helper not ready", func() bool { _, err := os.Stat(base + ".ready"); return err == nil }); s != "" {
					res.Violation = ""
					panic("harness: stand-in in-helper did not become ready: " + base)
				}
				if fifo != nil {
					fifo.Close()
				}
				var err error
				if fifo, err = os.OpenFile(base+".fifo", os.O_RDWR, 0); err != nil {
					panic(err)
				}
			}
			inOpen = true
			if !in.IsOpen() {
				return fail("in.IsOpen() = false after Open")
			}
		case "CloseIn":
			times := 1
			if op.Again {
				times = 2
			}
			for k := 0; k < times; k++ {
				if s := call(where, func() { in.Close() }); s != "" {
					return fail("%s", s)
				}
			}
			inOpen = false
			if in.IsOpen() {
				return fail("in.IsOpen() = true after Close")
			}
		case "Listen":
			l := &listenerB{id: len(listeners)}
			var stop func()
			var err error
			if s := call(where, func() {
				if op.Level == "midi" {
					var opts []midi.Option
					if op.SysEx {
						opts = append(opts, midi.UseSysEx())
					}
					stop, err = midi.ListenTo(in, func(m midi.Message, ts int32) { l.recv(m, ts) }, opts...)
				} else {
					stop, err = in.Listen(func(b []byte, ts int32) { l.recv(b, ts) }, drivers.ListenConfig{SysEx: op.SysEx})
				}
			}); s != "" {
				return fail("%s", s)
			}
			if !inOpen {
				if op.Level == "drv" {
					// not part of the statement: any error is fine; a driver that accepts the
					// listener anyway gets it stopped again at once
					if err == nil && stop != nil {
						if s := call(where+" stop", stop); s != "" {
							return fail("%s", s)
						}
					}
					continue
				}
				return fail("harness: ListenTo on a closed midicat port is not generated")
			}
			if err != nil || stop == nil {
				return fail("listen failed: %v", err)
			}
			listeners = append(listeners, l)
			active, stopFn = l, stop
			activeSysEx = op.SysEx
		case "Stop":
			if active == nil {
				continue
			}
			times := 1
			if op.Again {
				times = 2
			}
			for k := 0; k < times; k++ {
				if s := call(where, func() { stopFn() }); s != "" {
					return fail("%s", s)
				}
				active.stopped.Store(true)
			}
			active = nil
		case "Inject":
			if !inOpen {
				continue
			}
			var must []string
			stopDuring := op.Again && active != nil
			for k := 0; k < op.N; k++ {
				m := liveMsg(nextID)
				if nextID%3 == 0 {
					m = twoByte(nextID)
				}
				if active != nil && activeSysEx && nextID%4 == 1 {
					// the listener asked for sysex: every listening gets what its own options ask
					// for, whatever an earlier listening on this port had asked for
					m = []byte{0xF0, 0x7D, byte(nextID >> 7 & 0x7F), byte(nextID & 0x7F), 0xF7}
				}
				ts := int32(nextID)
				nextID++
				h := fmt.Sprintf("%X", m)
				if active != nil && !stopDuring {
					must = append(must, h)
				} else {
					maybeIn[h] = true
				}
				if _, err := fmt.Fprintf(fifo, "%d %X\n", ts, m); err != nil {
					panic(err)
				}
				if stopDuring && k == op.N/2 {
					// stop while records are still flowing
					stopWhileInjecting = true
					l := active
					if s := call(where+" stop", func() { stopFn() }); s != "" {
						return fail("%s", s)
					}
					l.stopped.Store(true)
					active = nil
				}
			}
			if len(must) > 0 {
				l := active
				base := len(l.snapshot())
				_ = base
				if s := waitFor("timeout", func() bool {
					got := l.snapshot()
					return len(got) > 0 && got[len(got)-1] == must[len(must)-1]
				}); s != "" {
					return fail("listener %d did not receive the records injected while it was listening within %v: received %v, injected %v", l.id, arriveTimeout, tail(l.snapshot()), tail(must))
				}
				got := l.snapshot()
				// the must records are the tail of what was received, exactly once, in order;
				// anything before them must be in-flight records injected while nobody listened
				idx := 0
				for _, g := range got {
					switch {
					case idx < len(must) && g == must[idx]:
						idx++
					case maybeIn[g] && idx == 0:
						delete(maybeIn, g) // at most once
					case l.seenBefore(g):
					default:
						return fail("listener %d received %q which is neither a record injected while it listened (in order, once) nor an in-flight record from before: received %v, injected %v", l.id, g, tail(got), tail(must))
					}
				}
				if idx != len(must) {
					return fail("listener %d received %v, records injected while it listened: %v (lost, duplicated or reordered)", l.id, tail(got), tail(must))
				}
				l.markSeen(got)
			}
		}
		// after every step: a stopped listener is never called again
		for _, l := range listeners {
			l.mu.Lock()
			late := append([]string{}, l.late...)
			l.mu.Unlock()
			if len(late) > 0 {
				return fail("listener %d was called with %v after its stop function had returned", l.id, late)
			}
		}
	}
	// give late deliveries a moment, then the final checks
	time.Sleep(20 * time.Millisecond)
	for _, l := range listeners {
		l.mu.Lock()
		late := append([]string{}, l.late...)
		l.mu.Unlock()
		if len(late) > 0 {
			res.Violation = fmt.Sprintf("listener %d was called with %v after its stop function had returned", l.id, late)
			return
		}
	}
	if s := checkOutLog(true); s != "" {
		res.Violation = "at the end: " + s
		return
	}
	res.Nontrivial = concurrent && stopWhileInjecting
	if concurrent {
		res.Classes = append(res.Classes, "concurrent-senders")
	}
	if stopWhileInjecting {
		res.Classes = append(res.Classes, "stop-while-injecting")
	}
	if len(listeners) >= 2 {
		res.Classes = append(res.Classes, "listen-again-after-stop")
	}
	return
}

var seenMu sync.Mutex
var seenSets = map[*listenerB]map[string]bool{}

func (l *listenerB) seenBefore(h string) bool {
	seenMu.Lock()
	defer seenMu.Unlock()
	return seenSets[l][h]
}

func (l *listenerB) markSeen(hs []string) {
	seenMu.Lock()
	defer seenMu.Unlock()
	if seenSets[l] == nil {
		seenSets[l] = map[string]bool{}
	}
	for _, h := range hs {
		seenSets[l][h] = true
	}
}

func tail(s []string) []string {
	if len(s) > 8 {
		return append([]string{"..."}, s[len(s)-8:]...)
	}
	return s
}

func genB(t *rapid.T) CaseB {
	c := CaseB{InPort: rapid.IntRange(0, 1).Draw(t, "inPort"), OutPort: rapid.IntRange(0, 1).Draw(t, "outPort")}
	n := rapid.IntRange(4, 25).Draw(t, "nOps")
	inOpen, outOpen, listening := false, false, false
	for i := 0; i < n; i++ {
		var kinds []string
		kinds = append(kinds, "OpenOut", "Send", "Send", "OpenIn")
		if outOpen {
			kinds = append(kinds, "CloseOut", "Send", "Send", "CloseOutWhileSending")
		}
		if outOpen || inOpen {
			kinds = append(kinds, "DriverCloseWhileOpening")
		}
		if inOpen {
			kinds = append(kinds, "Inject", "Inject")
			if listening {
				kinds = append(kinds, "Stop", "Stop", "Inject")
			} else {
				kinds = append(kinds, "CloseIn", "Listen", "Listen", "Listen")
			}
		} else if rapid.IntRange(0, 5).Draw(t, "listenClosed?") == 0 {
			kinds = append(kinds, "ListenClosed")
		}
		op := OpB{Kind: rapid.SampledFrom(kinds).Draw(t, "op")}
		switch op.Kind {
		case "OpenOut":
			outOpen = true
			op.Again = rapid.IntRange(0, 3).Draw(t, "twice") == 0
		case "CloseOut":
			outOpen = false
			op.Again = rapid.IntRange(0, 3).Draw(t, "twice") == 0
		case "Send":
			op.Senders = rapid.IntRange(1, 4).Draw(t, "senders")
			op.PerSender = rapid.IntRange(1, 12).Draw(t, "perSender")
		case "CloseOutWhileSending":
			op.Senders = rapid.IntRange(1, 4).Draw(t, "senders")
			op.PerSender = rapid.IntRange(5, 40).Draw(t, "perSender")
			op.N = rapid.IntRange(0, 20).Draw(t, "closeAfter100us")
			outOpen = false
		case "DriverCloseWhileOpening":
			op.N = rapid.IntRange(0, 40).Draw(t, "openOffset100us") // when the other port is opened, relative to the start of Driver.Close
			inOpen, outOpen, listening = false, false, false
		case "OpenIn":
			inOpen = true
			op.Again = rapid.IntRange(0, 3).Draw(t, "twice") == 0
		case "CloseIn":
			inOpen = false
			op.Again = rapid.IntRange(0, 3).Draw(t, "twice") == 0
		case "Listen":
			op.Level = rapid.SampledFrom([]string{"drv", "midi"}).Draw(t, "level")
			op.SysEx = rapid.Bool().Draw(t, "sysexOption")
			listening = true
		case "ListenClosed":
			op.Kind, op.Level = "Listen", "drv"
		case "Stop":
			listening = false
			op.Again = rapid.IntRange(0, 3).Draw(t, "twice") == 0
		case "Inject":
			op.N = rapid.IntRange(1, 30).Draw(t, "records")
			if listening && rapid.IntRange(0, 2).Draw(t, "stopWhileInjecting") == 0 {
				op.Again = true
				listening = false
			}
		}
		c.Ops = append(c.Ops, op)
	}
	return c
}

var partB = ev.NewCheck("C17", "midicatdrv-histories",
	"rapid plus twelve fixed re-listening histories (listen - inject - stop repeated two to four times in one open session with the sysex option changing) plus three fixed histories per shard that close an out-port six times under the load of four senders (run in the race-detector build): histories of 4..25 operations on the process-backed driver against the stand-in helper binary: out.Open/Close (also twice), bursts of 1..4 concurrent sender goroutines with 1..12 messages each, out.Close while senders are running, in.Open/Close (also twice), In.Listen or midi.ListenTo with the sysex option drawn per listening (sysex records are injected for a listener that asked for them), stop (also twice, also while records are flowing), Driver.Close racing with the Open of another port (followed by a quiet Driver.Close after which every port must be closed), injection of 1..30 records (3-byte and 2-byte messages, unique time stamps) into the helper; the harness is the cable (it reads what the out helper received and writes what the in helper emits); oracle: every line sent with a nil result on the open port reaches the helper exactly once and per sender in order, Send on a closed port gives ErrPortClosed and nothing arrives, records injected while a listener is active (and drained) reach exactly that listener once and in order (in-flight records from a listener-less gap may precede them, at most once), a stopped listener is never called again, Listen works again after stop, Listen on a closed port does not block or panic, Open/Close/stop are idempotent, every call returns within 20 s, no panic, no data race report; non-trivial = >= 2 concurrent senders and a stop while records are flowing; distinct by case hash",
	genB, runB)

// TestRaceMidicatHistories runs in the race build only (bin/verif starts that binary with VERIF_RACE=1).
func TestRaceMidicatHistories(t *testing.T) {
	if !raceMode() {
		t.Skip("part B runs in the race build")
	}
	n := ev.N(8, 60)
	ev.SetupRapid("C17/midicatdrv-histories", n)
	var cases []CaseB
	rapid.Check(t, func(rt *rapid.T) { cases = append(cases, genB(rt)) })
	for _, c := range cases {
		logHistory("midicatdrv-histories", c)
		partB.One(t, c)
	}
}

// TestRaceRelisten: fixed histories in which one in-port is listened to several times in one open
// session with changing options (every listening must get what its own options ask for).
func TestRaceRelisten(t *testing.T) {
	if !raceMode() {
		t.Skip("part B runs in the race build")
	}
	if ev.Shard()%ev.Shards() != 0 {
		return
	}
	for _, lv := range [][2]string{{"drv", "drv"}, {"midi", "midi"}, {"drv", "midi"}, {"midi", "drv"}} {
		for _, pattern := range [][]bool{{false, true}, {true, false, true}, {false, false, true, true}} {
			c := CaseB{InPort: 1, OutPort: 0, Ops: []OpB{{Kind: "OpenIn"}}}
			for i, sx := range pattern {
				c.Ops = append(c.Ops, OpB{Kind: "Listen", Level: lv[i%2], SysEx: sx}, OpB{Kind: "Inject", N: 9}, OpB{Kind: "Stop"})
			}
			c.Ops = append(c.Ops, OpB{Kind: "CloseIn"})
			logHistory("midicatdrv-histories", c)
			partB.One(t, c)
			if t.Failed() {
				return
			}
		}
	}
}

// TestRaceCloseWhileSending: fixed histories in which an out-port is closed several times while four
// sender goroutines are busy (open, close under load, again), the close falling 0..2 ms after the
// senders were started. Every shard takes other offsets.
func TestRaceCloseWhileSending(t *testing.T) {
	if !raceMode() {
		t.Skip("part B runs in the race build")
	}
	for h := 0; h < 3; h++ {
		c := CaseB{InPort: 1, OutPort: h % 2}
		for k := 0; k < 6; k++ {
			c.Ops = append(c.Ops, OpB{Kind: "OpenOut"},
				OpB{Kind: "CloseOutWhileSending", Senders: 4, PerSender: 40, N: (ev.Shard()*7 + h*5 + k*3) % 21})
		}
		c.Ops = append(c.Ops, OpB{Kind: "Send", Senders: 1, PerSender: 2})
		logHistory("midicatdrv-histories", c)
		partB.One(t, c)
		if t.Failed() {
			return
		}
	}
}

// logHistory prints the case before it runs, so that a crash or a race report of the whole
// process can be attributed to it by the driver.
func logHistory(check string, c interface{}) {
	b, _ := json.Marshal(c)
	fmt.Printf("VERIF-HISTORY property=C17 check=%s case=%s\n", check, b)
}

// ---- start failure: the backing process cannot be started ---------------------------------

type StartCase struct {
	Port     string // in0 in1 out0 out1
	AfterUse bool   // the port was opened and closed successfully before
	// Senders > 0 (out ports): that many goroutines keep calling Send while Open fails (repeatedly)
	Senders int `json:",omitempty"`
}

func runStart(c StartCase) (res ev.Result) {
	res.Nontrivial = true
	dir, _ := os.MkdirTemp("", "verif-c17s-")
	defer os.RemoveAll(dir)
	os.Setenv("MIDICAT_STANDIN_DIR", dir)
	os.Setenv("MIDICAT_STANDIN_GEN", "s")
	drv, err := midicatdrv.New()
	if err != nil {
		panic(err)
	}
	ins, _ := drv.Ins()
	outs, _ := drv.Outs()
	var port drivers.Port
	switch c.Port {
	case "in0":
		port = ins[0]
	case "in1":
		port = ins[1]
	case "out0":
		port = outs[0]
	default:
		port = outs[1]
	}
	if c.AfterUse {
		if s := call("Open/Close before the failure", func() {
			if err := port.Open(); err != nil {
				panic(err)
			}
			port.Close()
		}); s != "" {
			res.Violation = s
			return
		}
	}
	oldPath := os.Getenv("PATH")
	empty, _ := os.MkdirTemp("", "verif-emptypath-")
	defer os.RemoveAll(empty)
	os.Setenv("PATH", empty)
	var oerr error
	// senders that hammer the (closed) out-port while its Open fails: every Send must report the
	// port-closed error, nothing may panic, block or race
	stopSenders := make(chan struct{})
	var sendWG sync.WaitGroup
	sendProblems := make([]string, c.Senders)
	if out, ok := port.(drivers.Out); ok {
		for g := 0; g < c.Senders; g++ {
			sendWG.Add(1)
			go func(g int) {
				defer sendWG.Done()
				defer func() {
					if r := recover(); r != nil {
						sendProblems[g] = fmt.Sprintf("Send panicked while Open was failing: %v", r)
					}
				}()
				for i := 0; ; i++ {
					select {
					case <-stopSenders:
						return
					default:
					}
					if err := out.Send([]byte{0x90, byte(g), byte(i & 0x7F)}); err != drivers.ErrPortClosed {
						sendProblems[g] = fmt.Sprintf("Send on a port whose Open is failing returned %v, want the port-closed error", err)
						return
					}
				}
			}(g)
		}
	}
	s := ev.TryTimeout(10*time.Second, func() {
		oerr = port.Open()
		for i := 0; i < 30 && c.Senders > 0 && oerr != nil; i++ {
			oerr = port.Open() // widen the window for the senders
		}
	})
	close(stopSenders)
	sendersDone := make(chan struct{})
	go func() { sendWG.Wait(); close(sendersDone) }()
	select {
	case <-sendersDone:
	case <-time.After(10 * time.Second):
		os.Setenv("PATH", oldPath)
		res.Violation = "a Send call that ran while Open was failing never returned"
		return
	}
	os.Setenv("PATH", oldPath)
	for _, p := range sendProblems {
		if p != "" {
			res.Violation = p
			return
		}
	}
	if s != "" {
		res.Violation = fmt.Sprintf("%s.Open() while the helper binary cannot be started: %s", c.Port, s)
		return
	}
	if oerr == nil {
		res.Violation = fmt.Sprintf("%s.Open() returned nil although the helper binary cannot be started", c.Port)
		return
	}
	if port.IsOpen() {
		res.Violation = fmt.Sprintf("%s.IsOpen() is true after a failed Open", c.Port)
		return
	}
	// the port is usable again once the helper can be started
	if s := call("Open/Close after the failure", func() {
		if err := port.Open(); err != nil {
			panic(fmt.Sprintf("Open after a failed start: %v", err))
		}
		if !port.IsOpen() {
			panic("IsOpen false after Open")
		}
		port.Close()
	}); s != "" {
		res.Violation = s
	}
	return
}

var startFail = ev.NewCheck("C17", "midicatdrv-start-failure",
	"enumeration: in and out ports 0/1 of the process-backed driver, fresh or after a successful open/close cycle, with PATH emptied so that the helper binary cannot be started, for out ports also while three goroutines keep calling Send on the port (each Send must report the port-closed error); oracle: Open returns an error within a 10 s watchdog (no call blocks forever), IsOpen is false, and the port opens and closes normally once the helper is available again; all cases non-trivial",
	nil, runStart)

func TestRaceStartFailure(t *testing.T) {
	if !raceMode() || ev.Shard() != 0 {
		t.Skip("runs once, in the race build")
	}
	startFail.R.Exhaustive = true
	for _, p := range []string{"out0", "out1", "in0", "in1"} {
		for _, after := range []bool{false, true} {
			for _, senders := range []int{0, 3} {
				if senders > 0 && p[0] != 'o' {
					continue
				}
				c := StartCase{p, after, senders}
				logHistory("midicatdrv-start-failure", c)
				startFail.One(t, c)
				if t.Failed() {
					return
				}
			}
		}
	}
}

// TestRaceReplay replays part B cases in the race build.
func TestRaceReplay(t *testing.T) {
	if !raceMode() {
		t.Skip()
	}
	ev.ReplayAll(t)
}

// ---- many concurrent senders on one out-port ---------------------------------------------------

// SendersCase: Senders goroutines send PerSender unique messages each to the same out-port.
type SendersCase struct {
	Senders, PerSender int
	MaxLen             int // messages are 3..MaxLen bytes long
}

func runSenders(c SendersCase) (res ev.Result) {
	res.Nontrivial = c.Senders >= 2
	env, err := cable.New()
	if err != nil {
		panic("harness: stand-in environment: " + err.Error())
	}
	defer env.Close()
	out := env.Outs[0]
	if s := call("out.Open", func() {
		if err := out.Open(); err != nil {
			panic(err)
		}
	}); s != "" {
		res.Violation = s
		return
	}
	msg := func(sender, seq int) []byte {
		n := 3 + (sender*7+seq*13)%(c.MaxLen-2)
		m := make([]byte, n)
		m[0] = 0xF0
		m[1], m[2] = byte(sender), byte(seq>>7)
		for i := 3; i < n; i++ {
			m[i] = byte(seq+i) & 0x7F
		}
		m[n-1] = byte(seq & 0x7F)
		return m
	}
	var wg sync.WaitGroup
	errs := make([]string, c.Senders)
	start := make(chan struct{})
	for s := 0; s < c.Senders; s++ {
		wg.Add(1)
		go func(s int) {
			defer wg.Done()
			<-start
			for q := 0; q < c.PerSender; q++ {
				if err := out.Send(msg(s, q)); err != nil {
					errs[s] = fmt.Sprintf("sender %d message %d: Send on the open port: %v", s, q, err)
					return
				}
			}
		}(s)
	}
	done := make(chan struct{})
	go func() { wg.Wait(); close(done) }()
	close(start)
	select {
	case <-done:
	case <-time.After(10 * callTimeout):
		res.Violation = "concurrent senders did not finish: a Send call blocks"
		return
	}
	for _, e := range errs {
		if e != "" {
			res.Violation = e
			return
		}
	}
	marker := []byte{0xFA, 0xFA, 0xFA, 0xFA, 0xFA, 0xFA, 0xFA}
	if err := out.Send(marker); err != nil {
		res.Violation = fmt.Sprintf("Send of the closing marker: %v", err)
		return
	}
	tail := []byte(fmt.Sprintf(" %X\n", marker))
	logPath := filepath.Join(env.Dir, "out-0.log")
	var got []byte
	deadline := time.Now().Add(arriveTimeout)
	for {
		got, _ = os.ReadFile(logPath)
		if bytes.HasSuffix(bytes.ToUpper(got), tail) {
			break
		}
		if time.Now().After(deadline) {
			res.Violation = fmt.Sprintf("the line of the last message did not reach the helper within %v (%d bytes received)", arriveTimeout, len(got))
			return
		}
		time.Sleep(2 * time.Millisecond)
	}
	// every line the helper received must be exactly one of the lines sent, each once, and the
	// lines of one sender in the order they were sent
	next := make([]int, c.Senders)
	lines := bytes.Split(bytes.TrimSuffix(got, []byte("\n")), []byte("\n"))
	for i, l := range lines[:len(lines)-1] {
		sp := bytes.IndexByte(l, ' ')
		var m []byte
		if sp >= 0 {
			m, _ = hex.DecodeString(string(l[sp+1:]))
		}
		if sp < 0 || len(m) < 3 || int(m[1]) >= c.Senders {
			res.Violation = fmt.Sprintf("line %d received by the helper is none of the lines sent: %q (%d senders x %d messages)", i, clipLine(l), c.Senders, c.PerSender)
			return
		}
		s := int(m[1])
		if next[s] >= c.PerSender || !bytes.Equal(m, msg(s, next[s])) {
			res.Violation = fmt.Sprintf("line %d received by the helper: %q is not message %d of sender %d (lines of concurrent senders mixed, lost, repeated or reordered)", i, clipLine(l), next[s], s)
			return
		}
		next[s]++
	}
	for s, n := range next {
		if n != c.PerSender {
			res.Violation = fmt.Sprintf("sender %d: %d of its %d messages reached the helper", s, n, c.PerSender)
			return
		}
	}
	return
}

func clipLine(l []byte) string {
	if len(l) > 60 {
		return string(l[:60]) + "..."
	}
	return string(l)
}

var senders = ev.NewCheck("C17", "midicatdrv-concurrent-senders",
	"enumeration (race-detector build): 2, 4 or 8 goroutines send 150..300 unique messages of 3..40 or 3..600 bytes each to the same out-port of the process-backed driver at the same time; the harness reads what the stand-in helper received; oracle: every received line is exactly one of the lines sent, each exactly once, the lines of one sender in sending order (no line of one sender cut in two by a line of another), every Send returns nil within the watchdog, no data race report; non-trivial = >= 2 senders",
	nil, runSenders)

func TestRaceConcurrentSenders(t *testing.T) {
	if !raceMode() {
		t.Skip("runs in the race build")
	}
	senders.R.Exhaustive = true
	cases := []SendersCase{{2, 300, 40}, {4, 200, 40}, {8, 150, 40}, {4, 150, 600}}
	if ev.Thorough() {
		cases = append(cases, SendersCase{8, 1000, 40}, SendersCase{16, 300, 600})
	}
	for i, c := range cases {
		if i%ev.Shards() != ev.Shard()%ev.Shards() {
			continue
		}
		logHistory("midicatdrv-concurrent-senders", c)
		senders.One(t, c)
	}
}

// Package c17 decides property C17: ports deliver exactly while listening, for every order
// of lifecycle calls. Part A: the in-memory test driver, exhaustively against a lifecycle
// model. Part B (partb_test.go): the process-backed driver against a stand-in helper.
package c17

import (
	"bytes"
	"fmt"
	"os"
	"strings"
	"testing"
	"time"

	"gitlab.com/gomidi/midi/v2"
	"gitlab.com/gomidi/midi/v2/drivers"
	"gitlab.com/gomidi/midi/v2/drivers/testdrv"
	"gitlab.com/gomidi/midi/v2/zverif/ev"
	"pgregory.net/rapid"
)

func TestMain(m *testing.M) { ev.Main(m) }

func raceMode() bool { return os.Getenv("VERIF_RACE") == "1" }

// Ops of part A. One letter each so that a history is a short string.
const (
	opOpenIn     = 'I' // in.Open()
	opCloseIn    = 'i' // in.Close()
	opOpenOut    = 'O' // out.Open()
	opCloseOut   = 'o' // out.Close()
	opListenDrv  = 'L' // in.Listen(...) at driver level
	opListenMidi = 'M' // midi.ListenTo(in, ...) (opens the port itself if needed)
	opStop       = 'S' // stop function of the latest listener (may be called twice)
	opSend       = 's' // out.Send(unique message)
	opSendTo     = 'T' // midi.SendTo(out) (opens the port if needed), then send a unique message
)

var opsA = []byte{opOpenIn, opCloseIn, opOpenOut, opCloseOut, opListenDrv, opListenMidi, opStop, opSend, opSendTo}

type CaseA struct {
	History string
}

type modelA struct {
	inOpen, outOpen bool
	active          int // index of the active listener, -1 none
	listeners       int
	everStopped     bool
}

// allowed reports whether op respects the port protocol in state m
// (drivers/port.go: listening must be stopped before the port may be closed; Listen needs an
// open port; one listener at a time).
func (m *modelA) allowed(op byte) bool {
	switch op {
	case opCloseIn:
		return m.active < 0
	case opListenDrv:
		return m.inOpen && m.active < 0
	case opListenMidi:
		return m.active < 0
	case opStop:
		return m.listeners > 0
	}
	return true
}

func uniqueMsg(n int) []byte { return []byte{0x90, byte(n % 128), byte(1 + n/128%127)} }

// runA executes a history on a fresh testdrv pair and checks every step against the model.
func runA(c CaseA) (res ev.Result) {
	m := &modelA{active: -1}
	for i := 0; i < len(c.History); i++ {
		if !m.allowed(c.History[i]) {
			res.Skip = true // not protocol respecting
			return
		}
		m.step(c.History[i])
	}
	res.Key = []byte(c.History)
	h := c.History
	res.Nontrivial = strings.ContainsAny(h, "LM") && strings.Contains(h, "S") && func() bool {
		// a Stop followed by a Listen, with a send in each phase
		i := strings.IndexAny(h, "LM")
		j := strings.Index(h[i:], "S")
		if j < 0 {
			return false
		}
		j += i
		k := strings.IndexAny(h[j:], "LM")
		if k < 0 {
			return false
		}
		k += j
		return strings.ContainsAny(h[i:j], "sT") && strings.ContainsAny(h[k:], "sT")
	}()
	failed := ev.TryTimeout(5*time.Second, func() { res.Violation = execA(c.History) })
	if failed != "" {
		res.Violation = fmt.Sprintf("history %q: %s", c.History, failed)
	}
	return
}

func (m *modelA) step(op byte) {
	switch op {
	case opOpenIn:
		m.inOpen = true
	case opCloseIn:
		m.inOpen = false
	case opOpenOut, opSendTo:
		m.outOpen = true
	case opCloseOut:
		m.outOpen = false
	case opListenDrv, opListenMidi:
		m.inOpen = true
		m.active = m.listeners
		m.listeners++
	case opStop:
		m.active = -1
	}
}

func execA(history string) string {
	drv := testdrv.New("c17")
	ins, err1 := drv.Ins()
	outs, err2 := drv.Outs()
	if err1 != nil || err2 != nil || len(ins) != 1 || len(outs) != 1 {
		return fmt.Sprintf("testdrv ports: %v %v", err1, err2)
	}
	in, out := ins[0], outs[0]
	m := &modelA{active: -1}
	var got [][][]byte  // per listener: received messages
	var want [][][]byte // per listener: expected messages
	var stops []func()
	sent := 0
	for step := 0; step < len(history); step++ {
		op := history[step]
		where := fmt.Sprintf("history %q step %d (%c)", history, step, op)
		switch op {
		case opOpenIn:
			if err := in.Open(); err != nil {
				return where + ": in.Open: " + err.Error()
			}
		case opCloseIn:
			if err := in.Close(); err != nil {
				return where + ": in.Close: " + err.Error()
			}
		case opOpenOut:
			if err := out.Open(); err != nil {
				return where + ": out.Open: " + err.Error()
			}
		case opCloseOut:
			if err := out.Close(); err != nil {
				return where + ": out.Close: " + err.Error()
			}
		case opListenDrv, opListenMidi:
			id := len(got)
			got = append(got, nil)
			want = append(want, nil)
			var stop func()
			var err error
			if op == opListenDrv {
				stop, err = in.Listen(func(b []byte, ts int32) {
					// raw frames of the driver level are 3 bytes for channel messages
					got[id] = append(got[id], append([]byte{}, b...))
				}, drivers.ListenConfig{})
			} else {
				stop, err = midi.ListenTo(in, func(msg midi.Message, ts int32) {
					got[id] = append(got[id], append([]byte{}, msg...))
				})
			}
			if err != nil || stop == nil {
				return fmt.Sprintf("%s: listen failed: %v", where, err)
			}
			stops = append(stops, stop)
		case opStop:
			stops[len(stops)-1]()
		case opSend, opSendTo:
			msg := uniqueMsg(sent)
			sent++
			var err error
			if op == opSend {
				err = out.Send(msg)
			} else {
				var send func(midi.Message) error
				send, err = midi.SendTo(out)
				if err != nil {
					return where + ": midi.SendTo: " + err.Error()
				}
				err = send(msg)
			}
			willOpen := m.outOpen || op == opSendTo
			if !willOpen {
				if err != drivers.ErrPortClosed {
					return fmt.Sprintf("%s: Send on a closed port returned %v, want ErrPortClosed", where, err)
				}
			} else {
				if err != nil {
					return fmt.Sprintf("%s: Send on an open port returned %v", where, err)
				}
				if m.active >= 0 {
					want[m.active] = append(want[m.active], msg)
				}
			}
		}
		m.step(op)
		if in.IsOpen() != m.inOpen || out.IsOpen() != m.outOpen {
			return fmt.Sprintf("%s: IsOpen in=%v out=%v, model in=%v out=%v", where, in.IsOpen(), out.IsOpen(), m.inOpen, m.outOpen)
		}
		for id := range want {
			if len(got[id]) != len(want[id]) {
				return fmt.Sprintf("%s: listener %d has received %d messages, %d were sent while it was the active listener (received % X, expected % X)", where, id, len(got[id]), len(want[id]), got[id], want[id])
			}
			for k := range want[id] {
				if !bytes.Equal(got[id][k], want[id][k]) {
					return fmt.Sprintf("%s: listener %d message %d is % X, sent % X", where, id, k, got[id][k], want[id][k])
				}
			}
		}
	}
	return ""
}

var partA = ev.NewCheck("C17", "testdrv-histories",
	"exhaustive: all histories of length 1..L over {in.Open, in.Close, out.Open, out.Close, in.Listen, midi.ListenTo, stop (of the latest listener, also twice), out.Send(unique message), midi.SendTo+send} on a fresh testdrv pair, pruned to protocol-respecting ones (Listen needs an open port and no active listener, Close of the in-port needs no active listener); quick L=6, thorough L=9; oracle = lifecycle model (inOpen, outOpen, active listener) checked after EVERY step: return values (nil / ErrPortClosed), IsOpen, exactly-once in-order delivery to the active listener only, nothing to stopped listeners, no panic, history returns within a 5 s watchdog; non-trivial = a Stop followed by a new Listen with a send in each phase; histories distinct by construction",
	nil, runA)

func TestEnumTestdrvHistories(t *testing.T) {
	if raceMode() {
		t.Skip("part A runs in the normal binary")
	}
	partA.R.Exhaustive = true
	L := ev.N(6, 9)
	var n, nt int64
	failed := false
	var rec func(prefix []byte, m modelA)
	idx := int64(0)
	shard, shards := int64(ev.Shard()), int64(ev.Shards())
	rec = func(prefix []byte, m modelA) {
		if failed {
			return
		}
		if len(prefix) > 0 {
			idx++
			if idx%shards == shard {
				c := CaseA{string(prefix)}
				r := runA(c)
				n++
				if r.Nontrivial {
					nt++
				}
				if n == 5000 {
					partA.R.Sample(c)
				}
				if r.Violation != "" {
					failed = true
					partA.R.AddEnum(n, nt, "")
					partA.R.Fail(t, c, "%s", r.Violation)
					return
				}
			}
		}
		if len(prefix) == L {
			return
		}
		for _, op := range opsA {
			if !m.allowed(op) {
				continue
			}
			m2 := m
			m2.step(op)
			rec(append(prefix, op), m2)
		}
	}
	rec(nil, modelA{active: -1})
	partA.R.AddEnum(n, nt, "")
}

var partARandom = ev.NewCheck("C17", "testdrv-long-histories",
	"rapid: protocol-respecting histories of length up to 60 over the same operations; same oracle; distinct by history",
	func(t *rapid.T) CaseA {
		n := rapid.IntRange(1, 60).Draw(t, "len")
		m := modelA{active: -1}
		var h []byte
		for i := 0; i < n; i++ {
			var ok []byte
			for _, op := range opsA {
				if m.allowed(op) {
					ok = append(ok, op)
				}
			}
			op := rapid.SampledFrom(ok).Draw(t, "op")
			m.step(op)
			h = append(h, op)
		}
		return CaseA{string(h)}
	}, runA)

func TestPropTestdrvLongHistories(t *testing.T) {
	if raceMode() {
		t.Skip("part A runs in the normal binary")
	}
	partARandom.Rapid(t, 500, 50000)
}

func TestReplay(t *testing.T) {
	if raceMode() {
		t.Skip()
	}
	ev.ReplayAll(t)
}

// Package cable lets the harness act as the MIDI cable of the process-backed driver
// (drivers/midicatdrv) when it runs against the stand-in helper binary: it injects lines into
// the FIFO the in-helper copies to its stdout.
package cable

import (
	"fmt"
	"os"
	"path/filepath"
	"sync/atomic"
	"time"

	"gitlab.com/gomidi/midi/v2/drivers"
	"gitlab.com/gomidi/midi/v2/drivers/midicatdrv"
)

var gen int64

// Env is one stand-in environment (a directory the helpers use).
type Env struct {
	Dir  string
	Drv  *midicatdrv.Driver
	Ins  []drivers.In
	Outs []drivers.Out
}

// New creates a fresh directory, points the helpers at it and lists the ports.
func New() (*Env, error) {
	dir, err := os.MkdirTemp("", "verif-cable-")
	if err != nil {
		return nil, err
	}
	os.Setenv("MIDICAT_STANDIN_DIR", dir)
	e := &Env{Dir: dir}
	if e.Drv, err = midicatdrv.New(); err != nil {
		return nil, err
	}
	if e.Ins, err = e.Drv.Ins(); err != nil {
		return nil, err
	}
	if e.Outs, err = e.Drv.Outs(); err != nil {
		return nil, err
	}
	return e, nil
}

// Close closes every port that is still open and removes the directory.
func (e *Env) Close() {
	done := make(chan bool, 1)
	go func() { e.Drv.Close(); done <- true }()
	select {
	case <-done:
	case <-time.After(20 * time.Second):
	}
	os.RemoveAll(e.Dir)
}

// InCable is the injection side of one opened in-port.
type InCable struct {
	fifo *os.File
}

// OpenIn opens in-port idx and waits until its helper is ready to take lines.
func (e *Env) OpenIn(idx int) (*InCable, error) {
	g := atomic.AddInt64(&gen, 1)
	os.Setenv("MIDICAT_STANDIN_GEN", fmt.Sprint(g))
	if err := e.Ins[idx].Open(); err != nil {
		return nil, err
	}
	base := filepath.Join(e.Dir, fmt.Sprintf("in-%d-%d", idx, g))
	dl := time.Now().Add(30 * time.Second)
	for {
		if _, err := os.Stat(base + ".ready"); err == nil {
			break
		}
		if time.Now().After(dl) {
			return nil, fmt.Errorf("stand-in helper %s did not become ready", base)
		}
		time.Sleep(time.Millisecond)
	}
	f, err := os.OpenFile(base+".fifo", os.O_RDWR, 0)
	if err != nil {
		return nil, err
	}
	return &InCable{fifo: f}, nil
}

// Inject writes one record the way the real helper prints it.
func (c *InCable) Inject(ts int32, msg []byte) error {
	_, err := fmt.Fprintf(c.fifo, "%d %X\n", ts, msg)
	return err
}

func (c *InCable) Close() { c.fifo.Close() }

// Package c19 decides property C19: the midicat text line protocol is lossless and
// self-framing.
package c19

import (
	"bufio"
	"bytes"
	"fmt"
	"io"
	"sort"
	"testing"

	"gitlab.com/gomidi/midi/v2/drivers/midicat"
	"gitlab.com/gomidi/midi/v2/zverif/ev"
	"gitlab.com/gomidi/midi/v2/zverif/faultio"
	"gitlab.com/gomidi/midi/v2/zverif/ref/lineproto"
	"pgregory.net/rapid"
)

func TestMain(m *testing.M) { ev.Main(m) }

type Case struct {
	Stream ev.Hex   // the bytes on the pipe
	Muts   []string // mutation operators applied (histogram)
	Cuts   [][]int  // fragmentations to try besides from-memory, one-byte and single read
}

type outcome struct {
	ok  bool
	rec lineproto.Record
}

// drain calls ReadAndConvert until the source is exhausted (io.EOF) or the call budget is
// used up (every call must consume input or report the end).
func drain(r io.Reader, budget int) (outs []outcome, failed string) {
	failed = ev.TryTimeout(ev.Watchdog, func() {
		for calls := 0; ; calls++ {
			if calls > budget {
				panic(fmt.Sprintf("no end of input after %d calls", calls))
			}
			msg, ts, err := midicat.ReadAndConvert(r)
			if err == io.EOF {
				return
			}
			if err != nil {
				outs = append(outs, outcome{ok: false})
				continue
			}
			outs = append(outs, outcome{ok: true, rec: lineproto.Record{TS: ts, Msg: append([]byte{}, msg...)}})
		}
	})
	return
}

func describe(outs []outcome) string {
	s := ""
	for i, o := range outs {
		if i > 6 {
			s += "..."
			break
		}
		if o.ok {
			m := o.rec.Msg
			if len(m) > 8 {
				m = m[:8]
			}
			s += fmt.Sprintf("[%d % X] ", o.rec.TS, m)
		} else {
			s += "[error] "
		}
	}
	return s
}

func run(c Case) (res ev.Result) {
	lines := lineproto.Lines(c.Stream)
	var want []lineproto.Record
	malformed := 0
	afterBad := false
	for i, l := range lines {
		if l.WellFormed {
			want = append(want, l.Rec)
			if i > 0 && !lines[i-1].WellFormed {
				afterBad = true
			}
		} else if l.Terminated {
			malformed++
		}
	}
	res.Key = c.Stream
	res.Classes = append([]string{}, c.Muts...)
	budget := len(c.Stream) + 3
	checkSeq := func(where string, outs []outcome, failed string) string {
		if failed != "" {
			return where + ": " + failed
		}
		var recs []lineproto.Record
		errs := 0
		for _, o := range outs {
			if o.ok {
				recs = append(recs, o.rec)
			} else {
				errs++
			}
		}
		for i := 0; i < len(recs) || i < len(want); i++ {
			switch {
			case i >= len(recs):
				return fmt.Sprintf("%s: record %d (ts %d, %d bytes) of a well-formed line was not returned; returned: %s", where, i, want[i].TS, len(want[i].Msg), describe(outs))
			case i >= len(want):
				return fmt.Sprintf("%s: record %d (ts %d, % X) does not come from any well-formed line (stream has %d well-formed, %d malformed lines); returned: %s", where, i, recs[i].TS, clip(recs[i].Msg), len(want), malformed, describe(outs))
			case recs[i].TS != want[i].TS || !bytes.Equal(recs[i].Msg, want[i].Msg):
				return fmt.Sprintf("%s: record %d is (ts %d, % X), line %q says (ts %d, % X)", where, i, recs[i].TS, clip(recs[i].Msg), clipS(lines[0].Text), want[i].TS, clip(want[i].Msg))
			}
		}
		if errs < malformed {
			return fmt.Sprintf("%s: the stream has %d malformed lines but only %d calls returned an error", where, malformed, errs)
		}
		return ""
	}
	mem, failed := drain(bytes.NewReader(c.Stream), budget)
	if s := checkSeq("from memory", mem, failed); s != "" {
		res.Violation = s
		return
	}
	insideLine := false
	try := func(what string, r io.Reader, cuts []int) string {
		outs, failed := drain(r, budget)
		if s := checkSeq(what, outs, failed); s != "" {
			return s
		}
		if len(outs) != len(mem) {
			return fmt.Sprintf("%s: %d results, reading from memory gives %d", what, len(outs), len(mem))
		}
		for i := range outs {
			if outs[i].ok != mem[i].ok {
				return fmt.Sprintf("%s: result %d differs from reading from memory", what, i)
			}
		}
		for _, cu := range cuts {
			if cu > 0 && cu < len(c.Stream) && c.Stream[cu-1] != '\n' {
				insideLine = true
			}
		}
		return ""
	}
	if s := try("one byte per read", &faultio.OneByteReader{Data: c.Stream}, []int{1}); s != "" {
		res.Violation = s
		return
	}
	// the same *bufio.Reader handed to every call (a reader type the decoder might special-case),
	// with buffers smaller and larger than the lines
	for _, size := range []int{16, 1024, 4096} {
		var src io.Reader = bytes.NewReader(c.Stream)
		if len(c.Cuts) > 0 {
			src = &faultio.FragReader{Data: c.Stream, Cuts: c.Cuts[0]}
		}
		if s := try(fmt.Sprintf("bufio.Reader of %d bytes", size), bufio.NewReaderSize(src, size), nil); s != "" {
			res.Violation = s
			return
		}
	}
	for _, eof := range []bool{false, true} {
		all := append([][]int{{}}, c.Cuts...)
		for _, cuts := range all {
			if s := try(fmt.Sprintf("cuts %v eof-with-data=%v", cuts, eof), &faultio.FragReader{Data: c.Stream, Cuts: cuts, EOFWithData: eof}, cuts); s != "" {
				res.Violation = s
				return
			}
		}
	}
	// two independent sources decoded alternately: no state may leak from one stream to the other
	if len(c.Cuts) > 0 {
		ra := &faultio.FragReader{Data: c.Stream, Cuts: c.Cuts[0]}
		rb := &faultio.FragReader{Data: c.Stream, Cuts: c.Cuts[len(c.Cuts)-1], EOFWithData: true}
		var oa, ob []outcome
		failed := ev.TryTimeout(ev.Watchdog, func() {
			doneA, doneB := false, false
			for calls := 0; !(doneA && doneB); calls++ {
				if calls > 2*budget {
					panic("no end of input while reading two streams alternately")
				}
				for _, x := range []struct {
					r    io.Reader
					outs *[]outcome
					done *bool
				}{{ra, &oa, &doneA}, {rb, &ob, &doneB}} {
					if *x.done {
						continue
					}
					msg, ts, err := midicat.ReadAndConvert(x.r)
					switch {
					case err == io.EOF:
						*x.done = true
					case err != nil:
						*x.outs = append(*x.outs, outcome{ok: false})
					default:
						*x.outs = append(*x.outs, outcome{ok: true, rec: lineproto.Record{TS: ts, Msg: append([]byte{}, msg...)}})
					}
				}
			}
		})
		for _, o := range [][]outcome{oa, ob} {
			if s := checkSeq("two streams read alternately", o, failed); s != "" {
				res.Violation = s
				return
			}
		}
		res.Classes = append(res.Classes, "two-streams-alternately")
	}
	res.Nontrivial = len(want) >= 2 && (insideLine || afterBad)
	if afterBad {
		res.Classes = append(res.Classes, "well-formed-line-after-malformed")
	}
	return
}

func clip(b []byte) []byte {
	if len(b) > 16 {
		return b[:16]
	}
	return b
}
func clipS(s string) string {
	if len(s) > 40 {
		return s[:40]
	}
	return s
}

const badChars = "ghijklmnopqrstuvwxyzGHIJKLMNOPQRSTUVWXYZ_#@!,;"

func genCase(t *rapid.T) Case {
	var c Case
	n := rapid.OneOf(rapid.IntRange(1, 12), rapid.IntRange(1, 12), rapid.IntRange(1, 12), rapid.IntRange(1, 12), rapid.IntRange(1, 12), rapid.IntRange(300, 1500)).Draw(t, "nRecords")
	var lines [][]byte
	for i := 0; i < n; i++ {
		ts := rapid.OneOf(rapid.Int32Range(0, 5000), rapid.Int32(), rapid.SampledFrom([]int32{0, -1, 1, 2147483647, -2147483648, 10, 99, 100})).Draw(t, "ts")
		ln := rapid.OneOf(rapid.IntRange(1, 4), rapid.IntRange(1, 40), rapid.IntRange(1, 2000)).Draw(t, "msgLen")
		if n > 12 {
			ln = 1 + ln%12 // very many records: short messages
		}
		var msg []byte
		if ln <= 24 {
			msg = rapid.SliceOfN(rapid.Byte(), ln, ln).Draw(t, "msg")
		} else {
			a, st := rapid.Byte().Draw(t, "fill"), rapid.Byte().Draw(t, "step")
			for j := 0; j < ln; j++ {
				msg = append(msg, a)
				a += st
			}
		}
		lines = append(lines, lineproto.Encode([]lineproto.Record{{TS: ts, Msg: msg}}))
	}
	mutate := rapid.IntRange(0, 2).Draw(t, "mutate?") > 0
	for i := range lines {
		if !mutate || rapid.IntRange(0, 2).Draw(t, "mutateThisLine?") != 0 {
			continue
		}
		l := lines[i]
		sp := bytes.IndexByte(l, ' ')
		switch rapid.IntRange(0, 10).Draw(t, "mutation") {
		case 10: // one extra character (white space, control character) inserted at a structural position
			x := rapid.SampledFrom([]byte{'\r', '\t', ' ', 0x00, '\v', '\f', '+', '"', 0xA0, 0x7F}).Draw(t, "inserted")
			pos := rapid.SampledFrom([]int{len(l) - 1, len(l) - 1, sp + 1, sp, 0, (sp + len(l)) / 2}).Draw(t, "insertAt")
			if x == ' ' && pos == sp+1 || x == ' ' && pos == sp {
				x = '\t' // a second space is the doubled-separator mutation
			}
			if x == '+' && pos == 0 {
				x = '\r' // whether a plus sign is malformed is not determined by the property
			}
			l = append(l[:pos:pos], append([]byte{x}, l[pos:]...)...)
			c.Muts = append(c.Muts, "inserted-character")
		case 6: // time stamp outside int32 (the rest of the line would be a fine record)
			big := rapid.SampledFrom([]string{"2147483648", "-2147483649", "99999999999", "4294967296"}).Draw(t, "bigTS")
			l = append([]byte(big), l[sp:]...)
			c.Muts = append(c.Muts, "timestamp-out-of-range")
		case 7: // damaged time stamp followed by a complete record on the same line
			bad := rapid.SampledFrom([]string{"1x", "x", "-", "12z", "2147483648"}).Draw(t, "badTS")
			l = append([]byte(bad+" "), l...)
			c.Muts = append(c.Muts, "bad-timestamp-then-record-on-same-line")
		case 8: // doubled separator
			l = append(l[:sp+1:sp+1], append([]byte{' '}, l[sp+1:]...)...)
			c.Muts = append(c.Muts, "double-separator")
		case 9: // separator inside the hex data: the tail looks like a record of its own
			if len(l)-sp > 6 {
				p := sp + 3
				l = append(l[:p:p], append([]byte{' '}, l[p:]...)...)
				c.Muts = append(c.Muts, "separator-inside-data")
			}
		case 0: // remove one hex digit
			p := rapid.IntRange(sp+1, len(l)-2).Draw(t, "hexPos")
			l = append(l[:p:p], l[p+1:]...)
			c.Muts = append(c.Muts, "odd-hex-length")
		case 1: // non-hex character
			p := rapid.IntRange(sp+1, len(l)-2).Draw(t, "hexPos")
			l[p] = badChars[rapid.IntRange(0, len(badChars)-1).Draw(t, "bad")]
			c.Muts = append(c.Muts, "non-hex-character")
		case 2: // non-digit in the time stamp
			p := rapid.IntRange(0, sp-1).Draw(t, "tsPos")
			if l[p] == '-' && sp > 1 {
				p++
			}
			l[p] = badChars[rapid.IntRange(0, len(badChars)-1).Draw(t, "bad")]
			c.Muts = append(c.Muts, "non-digit-in-timestamp")
		case 3: // missing separator
			l = append(l[:sp:sp], l[sp+1:]...)
			c.Muts = append(c.Muts, "missing-separator")
		case 4: // missing terminator: merges with the next line, or leaves the stream unterminated
			l = l[:len(l)-1]
			c.Muts = append(c.Muts, "missing-terminator")
		default: // empty message
			l = append(l[:sp+1:sp+1], '\n')
			c.Muts = append(c.Muts, "empty-message")
		}
		lines[i] = l
	}
	c.Stream = bytes.Join(lines, nil)
	k := rapid.IntRange(1, 4).Draw(t, "nFragmentations")
	for i := 0; i < k; i++ {
		cuts := rapid.SliceOfN(rapid.IntRange(1, max(len(c.Stream), 2)), 1, 10).Draw(t, "cuts")
		sort.Ints(cuts)
		c.Cuts = append(c.Cuts, cuts)
	}
	if len(c.Muts) == 0 {
		c.Muts = []string{"all-lines-well-formed"}
	}
	return c
}

var streams = ev.NewCheck("C19", "line-streams",
	"rapid: 1..12 records, in one case of six 300..1500 short ones (time stamps over int32 incl. negatives and extremes, messages of 1..2000 arbitrary bytes) encoded like the driver (\"%d %X\\n\"); optionally lines damaged by: one hex digit removed, a hex digit or a time-stamp digit replaced by a character from [g-zG-Z_#@!,;], separator removed, newline removed (two lines merge / stream ends unterminated), message removed, time stamp outside int32, damaged time stamp followed by a complete record on the same line, doubled separator, separator inside the data, one white-space / control character inserted before the terminator, next to the separator, at the start or in the middle; read from memory, one byte per call, through one bufio.Reader (16, 1024, 4096 bytes) shared by all calls, a single read and 1..4 random partitions, each also with the last bytes delivered together with io.EOF; oracle = line model (split at newline; well formed iff -?[0-9]+ SP ([0-9A-F]{2})+): calling ReadAndConvert until io.EOF yields exactly the records of the well-formed lines in order, at least one error per malformed line, no panic, terminates within len(stream)+3 calls, the same outcome sequence for every fragmentation, and also when two copies of the stream are decoded alternately call by call (no state shared between sources); non-trivial = >= 2 records and (a read boundary inside a line or a well-formed line after a malformed one); distinct by stream bytes",
	genCase, run)

func TestPropLineStreams(t *testing.T) { streams.Rapid(t, 2500, 30000) }

// FuzzC19: raw bytes against the line model (thorough tier).
func FuzzC19(f *testing.F) {
	f.Add([]byte("0 904040\n12 8040\n"))
	f.Add([]byte("12 90ZZ40\n13 8040\n"))
	f.Add([]byte("12abc 9040\n"))
	f.Add([]byte("12 904013 8040\n"))
	f.Add([]byte("-2147483648 F07EF7\n5 90"))
	f.Fuzz(func(t *testing.T, data []byte) {
		if len(data) > 4096 {
			return
		}
		// don't-care inputs: the encoder writes upper-case hex and no plus sign; whether a line with
		// lower-case hex digits or "+12" is malformed is not determined by the property
		for _, b := range data {
			if (b >= 'a' && b <= 'f') || b == '+' {
				return
			}
		}
		c := Case{Stream: data, Muts: []string{"fuzz"}, Cuts: [][]int{{len(data) / 2}}}
		if r := run(c); r.Violation != "" {
			streams.R.Fail(t, c, "%s", r.Violation)
		}
	})
}

func TestReplay(t *testing.T) { defer closeEnv(); ev.ReplayAll(t) }

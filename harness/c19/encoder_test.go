package c19

import (
	"bytes"
	"fmt"
	"os"
	"path/filepath"
	"sync"
	"testing"
	"time"

	"gitlab.com/gomidi/midi/v2/drivers"
	"gitlab.com/gomidi/midi/v2/zverif/cable"
	"gitlab.com/gomidi/midi/v2/zverif/ev"
	"gitlab.com/gomidi/midi/v2/zverif/faultio"
	"pgregory.net/rapid"
)

// ---- the encoder side: what the process-backed driver's out-port writes to its helper ---------

// EncCase: messages handed to Out.Send of drivers/midicatdrv one after the other.
type EncCase struct {
	Msgs []ev.Hex
}

// sentinel is sent after the messages of a case; the helper's log is complete when it ends with
// the sentinel's line. No generated message equals it.
var sentinel = []byte{0xFA, 0xFA, 0xFA, 0xFA, 0xFA}

var (
	encMu  sync.Mutex
	encEnv *cable.Env
)

// env returns the stand-in environment of this process, creating it on first use.
func env() *cable.Env {
	encMu.Lock()
	defer encMu.Unlock()
	if encEnv == nil {
		e, err := cable.New()
		if err != nil {
			panic("harness: cannot set up the stand-in helper environment: " + err.Error())
		}
		encEnv = e
	}
	return encEnv
}

func closeEnv() {
	encMu.Lock()
	defer encMu.Unlock()
	if encEnv != nil {
		encEnv.Close()
		encEnv = nil
	}
}

func runEnc(c EncCase) (res ev.Result) {
	if len(c.Msgs) == 0 {
		res.Skip = true
		return
	}
	encEnv := env()
	logPath := filepath.Join(encEnv.Dir, "out-0.log")
	var start int64
	if st, err := os.Stat(logPath); err == nil {
		start = st.Size()
	}
	out := encEnv.Outs[0]
	want := make([][]byte, 0, len(c.Msgs)+1)
	for _, m := range c.Msgs {
		want = append(want, m)
		if n := len(m); n == 511 || n == 1023 || n == 1535 || n == 255 || n == 127 {
			res.Classes = append(res.Classes, "line-ends-at-a-buffer-size")
		}
		if len(m) > 512 {
			res.Classes = append(res.Classes, "message>512-bytes")
		}
	}
	want = append(want, sentinel)
	res.Nontrivial = len(c.Msgs) >= 2
	failed := ev.TryTimeout(ev.Watchdog, func() {
		if err := out.Open(); err != nil {
			panic(fmt.Sprintf("Open of the out-port: %v", err))
		}
		for i, m := range want {
			if err := out.Send(m); err != nil {
				panic(fmt.Sprintf("Send of message %d (%d bytes): %v", i, len(m), err))
			}
		}
	})
	if failed != "" {
		res.Violation = failed
		return
	}
	// the helper appends what it reads; wait for the sentinel's line (bounded, generous)
	tail := []byte(fmt.Sprintf(" %X\n", sentinel))
	var got []byte
	deadline := time.Now().Add(60 * time.Second)
	for {
		b, err := os.ReadFile(logPath)
		if err == nil && int64(len(b)) >= start {
			got = b[start:]
			if bytes.HasSuffix(bytes.ToUpper(got), tail) { // hex digits of either case decode
				break
			}
		}
		if time.Now().After(deadline) {
			res.Violation = fmt.Sprintf("the line of the last message sent did not reach the helper within 60 s; it received %d bytes ending in %q", len(got), clipS(string(got[max(0, len(got)-40):])))
			return
		}
		time.Sleep(time.Millisecond)
	}
	res.Key = got
	// what the helper received must decode, one record per call, to exactly the messages sent
	check := func(where string, outs []outcome, failed string) string {
		if failed != "" {
			return where + ": " + failed
		}
		for i := 0; i < len(outs) || i < len(want); i++ {
			switch {
			case i >= len(outs):
				return fmt.Sprintf("%s: message %d (%d bytes) was sent but the stream written to the helper decodes to %d records only: %s", where, i, len(want[i]), len(outs), describe(outs))
			case i >= len(want):
				return fmt.Sprintf("%s: the stream written to the helper decodes to %d records, %d messages were sent", where, len(outs), len(want))
			case !outs[i].ok:
				return fmt.Sprintf("%s: record %d does not decode (message of %d bytes was sent); results: %s", where, i, len(want[i]), describe(outs))
			case !bytes.Equal(outs[i].rec.Msg, want[i]):
				return fmt.Sprintf("%s: record %d decodes to % X (%d bytes), sent % X (%d bytes)", where, i, clip(outs[i].rec.Msg), len(outs[i].rec.Msg), clip(want[i]), len(want[i]))
			}
		}
		return ""
	}
	budget := len(got) + 3
	outs, f := drain(bytes.NewReader(got), budget)
	if s := check("decoded from memory", outs, f); s != "" {
		res.Violation = s
		return
	}
	outs, f = drain(&faultio.FragReader{Data: got, Cuts: []int{len(got) / 3, len(got) / 2}, EOFWithData: true}, budget)
	if s := check("decoded from a fragmented source", outs, f); s != "" {
		res.Violation = s
	}
	return
}

func genEnc(t *rapid.T) EncCase {
	var c EncCase
	n := rapid.IntRange(1, 6).Draw(t, "nMessages")
	for i := 0; i < n; i++ {
		l := rapid.OneOf(
			rapid.IntRange(1, 3),
			rapid.IntRange(1, 40),
			rapid.SampledFrom([]int{127, 128, 255, 256, 510, 511, 512, 513, 1022, 1023, 1024, 1025, 1534, 1535, 1536, 1999, 2000}),
			rapid.IntRange(1, 2000),
		).Draw(t, "len")
		m := rapid.SliceOfN(rapid.Byte(), l, l).Draw(t, "msg")
		if bytes.Equal(m, sentinel) {
			m[0] = 0xFB
		}
		c.Msgs = append(c.Msgs, m)
	}
	return c
}

var encoder = ev.NewCheck("C19", "driver-encoder",
	"rapid: 1..6 messages of 1..2000 arbitrary bytes (lengths biased to 127/128, 255/256, 510..513, 1022..1025, 1534..1536, 1999/2000) handed to Out.Send of the process-backed driver (drivers/midicatdrv) running against the stand-in helper, which appends everything it reads on its standard input to a file; oracle = round trip: the bytes the helper received, decoded with ReadAndConvert call by call (from memory and from a fragmented source delivering its last bytes together with io.EOF), give exactly the messages sent, in order, one record per call, no error; a marker message sent last tells when the helper has received everything (bounded wait of 60 s); non-trivial = >= 2 messages; distinct by the bytes the helper received",
	genEnc, runEnc)

func TestPropDriverEncoder(t *testing.T) {
	defer closeEnv()
	encoder.Rapid(t, 150, 3000)
}

// ---- the decoder side inside the driver: what the in-port hands to a listener --------------------

// DecCase: records the helper of an in-port prints, one line each.
type DecCase struct {
	Recs []DecRec
}

type DecRec struct {
	TS   int32
	Msg  ev.Hex
	Slow int `json:",omitempty"` // milliseconds the listener callback takes for this record
}

func runDec(c DecCase) (res ev.Result) {
	if len(c.Recs) == 0 {
		res.Skip = true
		return
	}
	e := env()
	res.Nontrivial = len(c.Recs) >= 2
	type got struct {
		ts  int32
		msg []byte
	}
	var mu sync.Mutex
	var recv []got
	marker := []byte{0xFA, 0xFB, 0xFA, 0xFB, 0xFA}
	seen := make(chan struct{}, 1)
	var cab *cable.InCable
	var stop func()
	failed := ev.TryTimeout(ev.Watchdog, func() {
		var err error
		if cab, err = e.OpenIn(1); err != nil {
			panic(fmt.Sprintf("opening the in-port: %v", err))
		}
		stop, err = e.Ins[1].Listen(func(b []byte, ts int32) {
			mu.Lock()
			k := len(recv)
			recv = append(recv, got{ts, append([]byte{}, b...)})
			mu.Unlock()
			if k < len(c.Recs) && c.Recs[k].Slow > 0 {
				time.Sleep(time.Duration(c.Recs[k].Slow) * time.Millisecond) // a callback that takes its time
			}
			if bytes.Equal(b, marker) {
				select {
				case seen <- struct{}{}:
				default:
				}
			}
		}, drivers.ListenConfig{ActiveSense: true, TimeCode: true, SysEx: true, SysExBufferSize: 4096})
		if err != nil {
			panic(fmt.Sprintf("Listen on the open in-port: %v", err))
		}
		for _, r := range c.Recs {
			if err := cab.Inject(r.TS, r.Msg); err != nil {
				panic("harness: injecting a line: " + err.Error())
			}
		}
		if err := cab.Inject(7, marker); err != nil {
			panic("harness: injecting the marker: " + err.Error())
		}
	})
	defer func() {
		ev.TryTimeout(ev.Watchdog, func() {
			if stop != nil {
				stop()
			}
			if cab != nil {
				cab.Close()
			}
			e.Ins[1].Close()
		})
	}()
	if failed != "" {
		res.Violation = failed
		return
	}
	select {
	case <-seen:
	case <-time.After(60 * time.Second):
		mu.Lock()
		n := len(recv)
		mu.Unlock()
		res.Violation = fmt.Sprintf("the record injected last did not reach the listener within 60 s (%d of %d records arrived)", n, len(c.Recs)+1)
		return
	}
	mu.Lock()
	defer mu.Unlock()
	for i := 0; i < len(recv)-1 || i < len(c.Recs); i++ {
		switch {
		case i >= len(recv)-1:
			res.Violation = fmt.Sprintf("record %d (ts %d, %d bytes) was printed by the helper but never reached the listener (%d of %d arrived)", i, c.Recs[i].TS, len(c.Recs[i].Msg), len(recv)-1, len(c.Recs))
			return
		case i >= len(c.Recs):
			res.Violation = fmt.Sprintf("the listener received %d records, the helper printed %d; extra: ts %d % X", len(recv)-1, len(c.Recs), recv[i].ts, clip(recv[i].msg))
			return
		case recv[i].ts != c.Recs[i].TS || !bytes.Equal(recv[i].msg, c.Recs[i].Msg):
			res.Violation = fmt.Sprintf("record %d reached the listener as (ts %d, %d bytes: % X), the helper printed (ts %d, %d bytes: % X)", i, recv[i].ts, len(recv[i].msg), clip(recv[i].msg), c.Recs[i].TS, len(c.Recs[i].Msg), clip(c.Recs[i].Msg))
			return
		}
	}
	return
}

func genDec(t *rapid.T) DecCase {
	var c DecCase
	n := rapid.IntRange(1, 8).Draw(t, "nRecords")
	for i := 0; i < n; i++ {
		l := rapid.OneOf(
			rapid.IntRange(1, 3),
			rapid.IntRange(1, 40),
			rapid.SampledFrom([]int{127, 128, 255, 256, 511, 512, 513, 1023, 1024, 1025, 2000}),
			rapid.IntRange(1, 2000),
		).Draw(t, "len")
		// one record in six looks like a piece of a long sysex: F0 first, a length that is a
		// power of two (or next to one), usually no F7 at the end
		piece := rapid.IntRange(0, 5).Draw(t, "sysexPiece?") == 0
		if piece {
			l = rapid.SampledFrom([]int{1024, 1024, 1024, 512, 256, 128, 2048, 1023, 1025, 4096}).Draw(t, "pieceLen")
		}
		m := rapid.SliceOfN(rapid.Byte(), l, l).Draw(t, "msg")
		// first and last byte biased to the bytes that frame MIDI messages
		if piece {
			m[0] = 0xF0
			if m[l-1] == 0xF7 {
				m[l-1] = 0x01
			}
		} else if rapid.Bool().Draw(t, "statusFirst?") {
			m[0] = rapid.SampledFrom([]byte{0xF0, 0xF0, 0x90, 0xF7, 0xB0, 0xFF}).Draw(t, "first")
		}
		if !piece && l > 1 && rapid.Bool().Draw(t, "f7Last?") {
			m[l-1] = 0xF7
		}
		if len(m) == 5 && m[0] == 0xFA && m[1] == 0xFB {
			m[1] = 0
		}
		if m[0] == 0xFE || m[0] == 0xF8 {
			m[0] = 0x90 // keep the message outside the option filter's classes: options are all on anyway
		}
		ts := rapid.OneOf(rapid.Int32Range(0, 5000), rapid.Int32()).Draw(t, "ts")
		slow := 0
		if rapid.IntRange(0, 3).Draw(t, "slowCallback?") == 0 {
			slow = rapid.IntRange(1, 8).Draw(t, "callbackMs")
		}
		c.Recs = append(c.Recs, DecRec{ts, m, slow})
	}
	return c
}

var decoder = ev.NewCheck("C19", "driver-decoder",
	"rapid: 1..8 records (any time stamp, messages of 1..2000 arbitrary bytes with lengths biased to 127/128, 255/256, 511..513, 1023..1025, 2000 and first/last bytes biased to F0 / F7 / channel status; one record in six shaped like a piece of a long sysex: F0 first, 128..4096 bytes with 1024 favoured, no F7 last) printed line by line by the stand-in helper of an in-port of the process-backed driver; In.Listen with all options on, the listener callback taking 1..8 ms for one record in four (so that the next line arrives while it runs); oracle: the listener is called exactly once per line, in order, with the line's time stamp and bytes (one record per line, nothing held back, glued or made up); a marker record printed last tells when everything has arrived (bounded wait of 60 s); non-trivial = >= 2 records; distinct by case hash",
	genDec, runDec)

func TestPropDriverDecoder(t *testing.T) {
	defer closeEnv()
	decoder.Rapid(t, 40, 800)
}

package c02

import (
	"testing"

	"gitlab.com/gomidi/midi/v2/zverif/gen"
	"pgregory.net/rapid"
)

// FuzzC02: the grammar generator driven by the coverage guided fuzzer (the fuzz bytes are the
// generator's choices, so the fuzzer mutates grammar decisions instead of dying in header
// validation). Thorough tier only, time boxed by the driver.
func FuzzC02(f *testing.F) {
	f.Fuzz(rapid.MakeFuzz(func(t *rapid.T) {
		c := Case{gen.File(t, gen.AllFreedoms)}
		if r := run(c); r.Violation != "" {
			files.R.Fail(t, c, "%s", r.Violation)
		}
	}))
}

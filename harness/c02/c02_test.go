// Package c02 decides property C02: SMF decoding conforms to SMF 1.0, judged by an
// independent decoder on byte-level generated files.
package c02

import (
	"bytes"
	_ "embed"
	"encoding/json"
	"fmt"
	"os"
	"path/filepath"
	"testing"

	"gitlab.com/gomidi/midi/v2/smf"
	"gitlab.com/gomidi/midi/v2/zverif/adapt"
	"gitlab.com/gomidi/midi/v2/zverif/ev"
	"gitlab.com/gomidi/midi/v2/zverif/gen"
	"gitlab.com/gomidi/midi/v2/zverif/ref/smfref"
	"pgregory.net/rapid"
)

func TestMain(m *testing.M) { ev.Main(m) }

// Case is a grammar value; the bytes handed to the library are smfref.Build(File).
type Case struct {
	File smfref.File
}

// compare reads b with the library and compares with the expected decoding.
func compare(b []byte, want smfref.File) string {
	var s *smf.SMF
	var err error
	if p := ev.TryTimeout(ev.Watchdog, func() {
		// for files with a long payload, and for every fourth of the others, a read of the same
		// file that ends early comes first (its outcome is C05's business, not this property's)
		if len(b) > 65536 || (len(b) > 30 && (int(b[len(b)/2])+len(b))%4 == 0) {
			cut := len(b) * (1 + int(b[len(b)/3])%7) / 8
			smf.ReadFrom(bytes.NewReader(b[:cut]))
		}
		s, err = smf.ReadFrom(bytes.NewReader(b), adapt.ReadOpts(b)...)
	}); p != "" {
		return "smf.ReadFrom: " + p
	}
	if err != nil {
		return fmt.Sprintf("smf.ReadFrom rejected a valid file: %v", err)
	}
	if s == nil {
		return "smf.ReadFrom returned nil, nil"
	}
	if s.Format() != want.Format {
		return fmt.Sprintf("format: got %d want %d", s.Format(), want.Format)
	}
	div, derr := adapt.Division(s.TimeFormat)
	if derr != nil {
		return derr.Error()
	}
	if div != want.Division {
		return fmt.Sprintf("division: got %04X (%v) want %04X", div, s.TimeFormat, want.Division)
	}
	if int(s.NumTracks()) != int(want.NTracks) {
		return fmt.Sprintf("NumTracks: got %d want %d", s.NumTracks(), want.NTracks)
	}
	return adapt.DiffTracks(adapt.Tracks(s), want.Tracks())
}

func run(c Case) (res ev.Result) {
	b := smfref.Build(c.File)
	// two independent derivations of the expectation must agree: construction and decoder
	dec, err := smfref.Decode(b)
	if err != nil {
		panic(fmt.Sprintf("harness bug: reference decoder rejects a generated file: %v", err))
	}
	if d := adapt.DiffTracks(dec.File.Tracks(), c.File.Tracks()); d != "" || dec.File.Format != c.File.Format || dec.File.Division != c.File.Division || dec.File.NTracks != c.File.NTracks {
		panic("harness bug: reference decoder disagrees with construction: " + d)
	}
	res.Classes = gen.FileClasses(c.File)
	res.Nontrivial = len(res.Classes) > 0
	res.Key = b
	res.Violation = compare(b, c.File)
	return
}

var files = ev.NewCheck("C02", "grammar-files",
	"rapid byte-level grammar: header length 6, format 0/1/2, metric 1..32767 or SMPTE 24/25/29/30, 0..2 alien chunks (one file in 120: 255..1200 tiny ones in one gap) before/between/after 1..5 tracks of 0..14 events (one track in 120: 1000..6000 short events with deltas 0..3), events with running status in any legal position, padded VLQs (<=4 bytes), F0 without F7, F7 packets, unknown meta types, payloads up to 70000 bytes; a read of the same file that ends early precedes the read of every file with a long payload and of every fourth other file; oracle = expectation by construction cross-checked with an independent decoder, compared event by event with smf.ReadFrom; non-trivial = file uses at least one encoding freedom the library's writer never produces (classes histogram) ; distinct by file bytes",
	func(t *rapid.T) Case {
		o := gen.AllFreedoms
		o.LongTracks = 120
		o.ManyAlien = 120
		return Case{gen.File(t, o)}
	}, run)

func TestPropGrammarFiles(t *testing.T) { files.Rapid(t, 3000, 30000) }

// ManyCase: files with very many minimal tracks (track counter width).
type ManyCase struct {
	NTracks int
	Format  uint16
}

func runMany(c ManyCase) (res ev.Result) {
	f := smfref.File{Format: c.Format, NTracks: uint16(c.NTracks), Division: 96}
	for i := 0; i < c.NTracks; i++ {
		evs := []smfref.Event{{Status: 0xFF, MetaType: 0x2F, Delta: uint32(i % 3)}}
		if i%1000 == 7 {
			evs = append([]smfref.Event{{Status: 0x90 | byte(i%16), Data: []byte{byte(i % 128), 100}, Delta: uint32(i)}}, evs...)
		}
		f.Chunks = append(f.Chunks, smfref.Chunk{IsTrack: true, Type: [4]byte{'M', 'T', 'r', 'k'}, Events: evs})
	}
	res.Nontrivial = true
	res.Classes = []string{fmt.Sprintf("tracks=%d", c.NTracks)}
	res.Violation = compare(smfref.Build(f), f)
	return
}

var many = ev.NewCheck("C02", "many-tracks",
	"enumeration of track counts {1,2,255,256,257,32767,32768,32769,40000,65535} x formats 1,2 with minimal tracks; oracle as above; all cases non-trivial",
	nil, runMany)

func TestEnumManyTracks(t *testing.T) {
	if ev.Shard() != 0 {
		return
	}
	many.R.Exhaustive = true
	for _, n := range []int{1, 2, 255, 256, 257, 32767, 32768, 32769, 40000, 65535} {
		for _, f := range []uint16{1, 2} {
			if !ev.Thorough() && n > 32769 && f == 2 {
				continue
			}
			many.One(t, ManyCase{n, f})
		}
	}
}

// RepoFileCase: the literal files of the repository's own tests, decoded by the reference.
type RepoFileCase struct {
	Name string
	Data ev.Hex
}

func runRepoFile(c RepoFileCase) (res ev.Result) {
	dec, err := smfref.Decode(c.Data)
	if err != nil {
		res.Skip = true
		return
	}
	res.Nontrivial = true
	res.Key = c.Data
	res.Violation = compare(c.Data, dec.File)
	return
}

var repoFiles = ev.NewCheck("C02", "repo-files",
	"the literal files of the repository's own tests (SpecSMF0, SpecSMF1, TestX; copied into the harness) and every *.mid file found under /repo; oracle = reference decoder",
	nil, runRepoFile)

//go:embed repofiles.json
var repoFilesJSON []byte

func TestEnumRepoFiles(t *testing.T) {
	if ev.Shard() != 0 {
		return
	}
	var lit map[string]ev.Hex
	if err := json.Unmarshal(repoFilesJSON, &lit); err != nil {
		t.Fatal(err)
	}
	for _, name := range []string{"SpecSMF0", "SpecSMF1", "TestX"} {
		repoFiles.One(t, RepoFileCase{Name: name, Data: lit[name]})
	}
	root := os.Getenv("VERIF_REPO")
	if root == "" {
		root = "/repo"
	}
	filepath.Walk(root, func(p string, info os.FileInfo, err error) error {
		if err == nil && !info.IsDir() && (filepath.Ext(p) == ".mid" || filepath.Ext(p) == ".midi") && info.Size() < 1<<20 {
			if b, err := os.ReadFile(p); err == nil {
				repoFiles.One(t, RepoFileCase{Name: p, Data: b})
			}
		}
		return nil
	})
}

func TestReplay(t *testing.T) { ev.ReplayAll(t) }

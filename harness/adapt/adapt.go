// Package adapt converts values of the library under test into the comparison forms of
// the reference packages (it is the only bridge between the two worlds).
package adapt

import (
	"bytes"
	"fmt"
	"io"

	"gitlab.com/gomidi/midi/v2/smf"
	"gitlab.com/gomidi/midi/v2/zverif/ref/smfref"
)

// Division returns the raw division word of a library time format.
func Division(tf smf.TimeFormat) (uint16, error) {
	switch v := tf.(type) {
	case smf.MetricTicks:
		if v > 0x7FFF {
			return 0, fmt.Errorf("time format is %d metric ticks: more than the 15 bits of the division word hold", uint16(v))
		}
		return uint16(v), nil
	case smf.TimeCode:
		// the kind of the time format is part of the value: a time code with a frame rate that is
		// none of the four SMPTE rates is not what any division word with bit 15 set stands for
		switch v.FramesPerSecond {
		case 24, 25, 29, 30:
		default:
			return 0, fmt.Errorf("time format is a time code with %d frames per second and %d subframes", v.FramesPerSecond, v.SubFrames)
		}
		return uint16(256-int(v.FramesPerSecond))<<8 | uint16(v.SubFrames), nil
	default:
		return 0, fmt.Errorf("time format %T (%v)", tf, tf)
	}
}

// TimeFormat builds the library time format for a raw division word.
func TimeFormat(div uint16) smf.TimeFormat {
	if div&0x8000 == 0 {
		return smf.MetricTicks(div)
	}
	return smf.TimeCode{FramesPerSecond: uint8(256 - int(div>>8)), SubFrames: uint8(div)}
}

// Tracks converts library tracks to comparison form.
func Tracks(s *smf.SMF) [][]smfref.NEvent {
	var out [][]smfref.NEvent
	for _, tr := range s.Tracks {
		nt := make([]smfref.NEvent, 0, len(tr))
		for _, ev := range tr {
			nt = append(nt, smfref.NEvent{Delta: ev.Delta, Msg: append([]byte{}, ev.Message...)})
		}
		out = append(out, nt)
	}
	return out
}

// DiffTracks compares two track lists event by event; "" means equal.
func DiffTracks(got, want [][]smfref.NEvent) string {
	if len(got) != len(want) {
		return fmt.Sprintf("track count: got %d want %d", len(got), len(want))
	}
	for i := range want {
		if s := DiffTrack(got[i], want[i]); s != "" {
			return fmt.Sprintf("track %d: %s", i, s)
		}
	}
	return ""
}

func short(b []byte) string {
	if len(b) > 24 {
		return fmt.Sprintf("% X ...(%d bytes)", b[:24], len(b))
	}
	return fmt.Sprintf("% X", b)
}

func DiffTrack(got, want []smfref.NEvent) string {
	for j := 0; j < len(got) || j < len(want); j++ {
		switch {
		case j >= len(got):
			return fmt.Sprintf("event %d missing: want delta %d msg %s (got %d events, want %d)", j, want[j].Delta, short(want[j].Msg), len(got), len(want))
		case j >= len(want):
			return fmt.Sprintf("event %d unexpected: got delta %d msg %s (got %d events, want %d)", j, got[j].Delta, short(got[j].Msg), len(got), len(want))
		case got[j].Delta != want[j].Delta || !bytes.Equal(got[j].Msg, want[j].Msg):
			return fmt.Sprintf("event %d: got delta %d msg %s, want delta %d msg %s", j, got[j].Delta, short(got[j].Msg), want[j].Delta, short(want[j].Msg))
		}
	}
	return ""
}

// IsPrefix reports whether got is an event-for-event prefix of want.
func IsPrefix(got, want []smfref.NEvent) string {
	if len(got) > len(want) {
		return fmt.Sprintf("%d events, original has %d", len(got), len(want))
	}
	for j := range got {
		if got[j].Delta != want[j].Delta || !bytes.Equal(got[j].Msg, want[j].Msg) {
			return fmt.Sprintf("event %d: got delta %d msg %s, original delta %d msg %s", j, got[j].Delta, short(got[j].Msg), want[j].Delta, short(want[j].Msg))
		}
	}
	return ""
}

// NopLogger is a logger that discards everything: attaching it must not change any result.
type NopLogger struct{}

func (NopLogger) Printf(format string, vals ...interface{}) {}

// ReadOpts returns the read options for an input: for two inputs of three (by content) the
// behaviour-neutral smf.Log option, with a discarding logger of the harness or with the library's
// own logger (smf.LogTo) writing to io.Discard.
func ReadOpts(input []byte) []smf.ReadOption {
	var h uint32 = 2166136261
	for _, b := range input {
		h = (h ^ uint32(b)) * 16777619
	}
	if len(input) == 0 {
		return nil
	}
	switch (h >> 8) % 3 {
	case 1:
		return []smf.ReadOption{smf.Log(NopLogger{})}
	case 2:
		return []smf.ReadOption{smf.Log(smf.LogTo(io.Discard))}
	}
	return nil
}

// TempoDecoy returns a copy of an SMF byte string of the same length in which every tempo event
// (FF 51 03 x y z) carries another value (1 microsecond per quarter, or 2 if it was 1): what a
// file of the same name and size looked like before it was saved again.
func TempoDecoy(file []byte) []byte {
	d := append([]byte{}, file...)
	for i := 0; i+5 < len(d); i++ {
		if d[i] == 0xFF && d[i+1] == 0x51 && d[i+2] == 0x03 {
			v := byte(1)
			if d[i+3] == 0 && d[i+4] == 0 && d[i+5] == 1 {
				v = 2
			}
			d[i+3], d[i+4], d[i+5] = 0, 0, v
			i += 5
		}
	}
	return d
}

// Package c01 decides property C01: SMF write/read round trip is the identity on file
// content, for every history of public API calls.
package c01

import (
	"bytes"
	"fmt"
	"os"
	"path/filepath"
	"testing"

	"gitlab.com/gomidi/midi/v2/smf"
	"gitlab.com/gomidi/midi/v2/zverif/adapt"
	"gitlab.com/gomidi/midi/v2/zverif/ev"
	"gitlab.com/gomidi/midi/v2/zverif/gen"
	"gitlab.com/gomidi/midi/v2/zverif/ref/smfref"
	"pgregory.net/rapid"
)

func TestMain(m *testing.M) { ev.Main(m) }

// roundTrip writes the library value and reads it back; the result must equal the model.
func roundTrip(s *smf.SMF, m gen.Model) string { return roundTripVia(s, m, false) }

// roundTripVia: viaFile uses WriteFile / ReadFile on a temporary file instead of WriteTo / ReadFrom.
func roundTripVia(s *smf.SMF, m gen.Model, viaFile bool) string {
	var buf bytes.Buffer
	var werr, rerr error
	var back *smf.SMF
	if viaFile {
		dir, err := os.MkdirTemp("", "verif-c01-")
		if err != nil {
			panic(err)
		}
		defer os.RemoveAll(dir)
		path := filepath.Join(dir, "roundtrip.mid")
		if p := ev.TryTimeout(ev.Watchdog, func() {
			// the path held the same value with another time division a moment ago (a file of the
			// same size), which was read from there as well
			final := s.TimeFormat
			if mt, ok := final.(smf.MetricTicks); ok {
				s.TimeFormat = smf.MetricTicks(uint16(mt)%32767 + 1)
			} else {
				s.TimeFormat = smf.MetricTicks(77)
			}
			if s.WriteFile(path) == nil {
				smf.ReadFile(path)
			}
			s.TimeFormat = final
			if werr = s.WriteFile(path); werr == nil {
				back, rerr = smf.ReadFile(path)
			}
		}); p != "" {
			return "WriteFile/ReadFile: " + p
		}
		if werr != nil {
			return fmt.Sprintf("WriteFile failed: %v", werr)
		}
		if rerr != nil {
			return fmt.Sprintf("ReadFile(WriteFile(v)) failed: %v", rerr)
		}
		return compareBack(back, m)
	}
	if p := ev.TryTimeout(ev.Watchdog, func() { _, werr = s.WriteTo(&buf) }); p != "" {
		return "WriteTo: " + p
	}
	if werr != nil {
		return fmt.Sprintf("WriteTo failed: %v", werr)
	}
	if p := ev.TryTimeout(ev.Watchdog, func() { back, rerr = smf.ReadFrom(bytes.NewReader(buf.Bytes())) }); p != "" {
		return "ReadFrom(WriteTo(v)): " + p
	}
	if rerr != nil {
		return fmt.Sprintf("ReadFrom(WriteTo(v)) failed: %v", rerr)
	}
	return compareBack(back, m)
}

func compareBack(back *smf.SMF, m gen.Model) string {
	if back == nil {
		return "ReadFrom returned nil, nil"
	}
	if back.Format() != m.Format {
		return fmt.Sprintf("format: read back %d, model %d", back.Format(), m.Format)
	}
	div, err := adapt.Division(back.TimeFormat)
	if err != nil {
		return err.Error()
	}
	if div != m.Division {
		return fmt.Sprintf("time division: read back %04X (%v), model %04X", div, back.TimeFormat, m.Division)
	}
	if int(back.NumTracks()) != len(m.Tracks) {
		return fmt.Sprintf("NumTracks: read back %d, model %d", back.NumTracks(), len(m.Tracks))
	}
	return adapt.DiffTracks(adapt.Tracks(back), m.Tracks)
}

func run(c gen.APICase) (res ev.Result) {
	if len(c.Tracks) == 0 {
		res.Skip = true
		return
	}
	m := gen.ModelOf(c)
	res.Classes, res.Nontrivial = gen.APIClasses(c)
	var s *smf.SMF
	if p := ev.Try(func() { s = gen.BuildLib(c) }); p != "" {
		res.Violation = "building the value through the API: " + p
		return
	}
	// every 8th case goes through the file system (WriteFile / ReadFile)
	viaFile := len(c.Tracks) > 0 && (len(c.Tracks[0].Ops)+int(c.Division))%8 == 0
	if viaFile {
		res.Classes = append(res.Classes, "via-WriteFile/ReadFile")
	}
	res.Violation = roundTripVia(s, m, viaFile)
	return
}

var histories = ev.NewCheck("C01", "api-histories",
	"rapid: histories of New/NewSMF1/NewSMF2, TimeFormat (metric 1..32767, four SMPTE rates), NoRunningStatus, 1..6 tracks built by 0..10 Track.Add calls (0..3 messages per call; one track in 120 by 1000..5000 calls with small deltas: long running-status runs, bodies beyond 16 and 64 KiB), Track.Close early/late/omitted, SMF.Add; one history in four is written in between (also read back and continued), one in six after a failing write, one in six after a complete write, in half of these the TimeFormat field holds another division until the last write; messages from the public constructors (channel, all meta constructors, MetaUndefined, sysex F0..F7 / F0 without F7 / F7 escape, payloads up to 70000 bytes), deltas over uint32 biased to VLQ boundaries; oracle = pure model of the API compared with ReadFrom(WriteTo(v)) (every 8th case with ReadFile(WriteFile(v)) on a temporary file that held the same value with another division a moment ago): format, division, track count, every (delta, bytes) incl. end-of-track; non-trivial = a track with >=2 events plus one of {running-status run, payload>=128, delta>=128, SMPTE, early close, >=2 tracks}; distinct by case hash",
	func(t *rapid.T) gen.APICase {
		return gen.API(t, gen.APIOpts{MaxTracks: 6, MaxOps: 10, MaxPayload: 70000, MaxDelta: 0xFFFFFFFF, LongTracks: 120})
	}, run)

func TestPropAPIHistories(t *testing.T) { histories.Rapid(t, 2000, 40000) }

// ManyCase: very many tiny tracks written and read back.
type ManyCase struct {
	NTracks int
	Ctor    string
}

func runMany(c ManyCase) (res ev.Result) {
	ac := gen.APICase{Ctor: c.Ctor, SetDivision: true, Division: 480}
	for i := 0; i < c.NTracks; i++ {
		var to gen.TrackOps
		if i%3 == 0 {
			to.Ops = append(to.Ops, gen.Op{Kind: "add", Delta: uint32(i), Msgs: []ev.Hex{{0x90 | byte(i%16), byte(i % 128), 1}}})
		}
		if i%2 == 0 {
			to.Ops = append(to.Ops, gen.Op{Kind: "close", Delta: uint32(i % 5)})
		}
		ac.Tracks = append(ac.Tracks, to)
	}
	res.Nontrivial = c.NTracks >= 2
	res.Classes = []string{fmt.Sprintf("tracks=%d", c.NTracks)}
	var s *smf.SMF
	if p := ev.Try(func() { s = gen.BuildLib(ac) }); p != "" {
		res.Violation = p
		return
	}
	res.Violation = roundTrip(s, gen.ModelOf(ac))
	return
}

var many = ev.NewCheck("C01", "many-tracks",
	"enumeration: 1, 2, 255, 256, 257, 300, 32767, 32768, 40000, 65535 tiny tracks (every third with a note, every second closed explicitly) x New/NewSMF1/NewSMF2; oracle as above",
	nil, runMany)

func TestEnumManyTracks(t *testing.T) {
	if ev.Shard() != 0 {
		return
	}
	many.R.Exhaustive = true
	ns := []int{1, 2, 255, 256, 257, 300, 32767, 32768, 40000}
	if ev.Thorough() {
		ns = append(ns, 65535)
	}
	for _, n := range ns {
		for _, ctor := range []string{"New", "NewSMF1", "NewSMF2"} {
			if n > 300 && ctor != "NewSMF1" && !ev.Thorough() {
				continue
			}
			many.One(t, ManyCase{n, ctor})
		}
	}
}

var exact = ev.NewCheck("C01", "exact-size-tracks",
	"enumeration: files whose last track body is exactly 65536, 131072, 196608 or 262144 bytes long, and one byte less / more (a writer or reader working in blocks must handle a body that ends on a block boundary), with and without running status; oracle as above",
	nil, func(ac gen.APICase) (res ev.Result) {
		res.Nontrivial = true
		var s *smf.SMF
		if p := ev.Try(func() { s = gen.BuildLib(ac) }); p != "" {
			res.Violation = "building the value: " + p
			return
		}
		res.Violation = roundTrip(s, gen.ModelOf(ac))
		return
	})

func TestEnumExactSizeTracks(t *testing.T) {
	exact.R.Exhaustive = true
	i := 0
	for _, size := range []int{65536, 131072, 196608, 262144} {
		for _, d := range []int{-1, 0, 1} {
			i++
			if i%ev.Shards() != ev.Shard() {
				continue
			}
			exact.One(t, gen.ExactSizeTrack(size+d, i%2 == 0))
		}
	}
}

// ZeroCase: WriteTo documents an error for zero tracks (asserted as "returns an error").
func TestEnumZeroTracks(t *testing.T) {
	if ev.Shard() != 0 {
		return
	}
	r := ev.New("C01", "zero-tracks", "the three constructors with no track added: WriteTo must return an error, as documented (outside the round-trip domain, asserted separately)")
	r.Exhaustive = true
	for _, ctor := range []string{"New", "NewSMF1", "NewSMF2"} {
		s := gen.BuildLib(gen.APICase{Ctor: ctor})
		var buf bytes.Buffer
		var err error
		var n int64
		p := ev.Try(func() { n, err = s.WriteTo(&buf) })
		r.EvalEnum(false)
		_ = n
		if p != "" || err == nil {
			r.Fail(t, map[string]string{"ctor": ctor}, "WriteTo of a file without tracks: panic=%q err=%v n=%d written=%d", p, err, n, buf.Len())
		}
	}
}

var _ = smfref.VLQ

func TestReplay(t *testing.T) { ev.ReplayAll(t) }

// Package c11 decides property C11: tick-to-time conversion follows the tempo map exactly.
package c11

import (
	"bytes"
	"fmt"
	"io"
	"os"
	"path/filepath"
	"math/big"
	"sort"
	"testing"
	"time"

	"gitlab.com/gomidi/midi/v2"
	"gitlab.com/gomidi/midi/v2/smf"
	"gitlab.com/gomidi/midi/v2/zverif/adapt"
	"gitlab.com/gomidi/midi/v2/zverif/ev"
	"gitlab.com/gomidi/midi/v2/zverif/ref/tempo"
	"pgregory.net/rapid"
)

func TestMain(m *testing.M) { ev.Main(m) }

type TempoEv struct {
	Delta uint32
	USPQ  uint32
}

type NoteEv struct {
	Delta uint32
}

type Case struct {
	Res    uint16
	Tempo  []TempoEv  // track 0
	Others [][]NoteEv // further tracks with channel events only
	Filler []int      // positions (indices into Tempo) before which a non-tempo meta is inserted (keeps ticks)
	// TempoPos: how many of the other tracks come BEFORE the tempo track in the file
	TempoPos int
	Queries  []int64
	// Pipeline: what is done with the value that was read before times are asked for:
	// bit 0 = a further track (channel messages only) is added with SMF.Add, bit 1 = the value is
	// exported once with WriteTo. Neither changes the tempo map.
	Pipeline int `json:",omitempty"`
}

const horizonUS = 8 * 24 * 3600 * 1e6 // 8 days in microseconds

func tempoMsg(uspq uint32) []byte {
	return []byte{0xFF, 0x51, 0x03, byte(uspq >> 16), byte(uspq >> 8), byte(uspq)}
}

func run(c Case) (res ev.Result) {
	if c.Res == 0 || c.Res > 32767 {
		res.Skip = true
		return
	}
	// the model of the tempo map
	var changes []tempo.Change
	var abs int64
	for _, te := range c.Tempo {
		abs += int64(te.Delta)
		changes = append(changes, tempo.Change{AbsTick: abs, USPQ: int64(te.USPQ)})
	}
	if abs >= 1<<32 {
		res.Skip = true
		return
	}
	// build through the public API, write, read back (the reader collects the tempo map)
	s := smf.New()
	s.TimeFormat = smf.MetricTicks(c.Res)
	var tr smf.Track
	fill := map[int]bool{}
	for _, f := range c.Filler {
		fill[f] = true
	}
	for i, te := range c.Tempo {
		d := te.Delta
		if fill[i] {
			tr.Add(d, smf.MetaMarker("m"))
			d = 0
		}
		tr.Add(d, tempoMsg(te.USPQ))
	}
	tr.Close(0)
	type absEv struct {
		track int
		abs   int64
	}
	var wantEvents []absEv
	pos := c.TempoPos
	if pos < 0 || pos > len(c.Others) {
		pos = 0
	}
	trackNo := 0
	for ti, notes := range c.Others {
		if ti == pos {
			s.Add(tr)
			trackNo++
		}
		var t smf.Track
		var a int64
		for ni, n := range notes {
			a += int64(n.Delta)
			if ni%3 == 1 {
				// a program change carries the delta, the note follows on the same tick: with a
				// type filter the note's time must not depend on the filtered-out message
				t.Add(n.Delta, []byte{0xC0 | byte(ti&15), 5})
				t.Add(0, []byte{0x90 | byte(ti&15), 60, 100})
			} else {
				t.Add(n.Delta, []byte{0x90 | byte(ti&15), 60, 100})
			}
			wantEvents = append(wantEvents, absEv{trackNo, a})
		}
		// a closing delta, so that the track is longer than its last note
		t.Close(uint32(ti)*7 + 3)
		s.Add(t)
		trackNo++
	}
	if pos >= len(c.Others) {
		s.Add(tr)
	}
	if pos > 0 && len(c.Others) > 0 {
		res.Classes = append(res.Classes, "tempo-track-not-first")
	}
	var buf bytes.Buffer
	var back *smf.SMF
	var err error
	if p := ev.TryTimeout(ev.Watchdog, func() {
		if _, err = s.WriteTo(&buf); err == nil {
			back, err = smf.ReadFrom(bytes.NewReader(buf.Bytes()))
		}
	}); p != "" || err != nil {
		res.Violation = fmt.Sprintf("write/read of the tempo file failed: %v %s", err, p)
		return
	}
	if c.Pipeline != 0 {
		res.Classes = append(res.Classes, "read-then-add/export-then-query")
		if p := ev.TryTimeout(ev.Watchdog, func() {
			if c.Pipeline&1 != 0 {
				var extra smf.Track
				extra.Add(7, []byte{0x9F, 64, 1})
				extra.Close(3)
				if err := back.Add(extra); err != nil {
					panic(fmt.Sprintf("SMF.Add: %v", err))
				}
			}
			if c.Pipeline&2 != 0 {
				if _, err := back.WriteTo(io.Discard); err != nil {
					panic(fmt.Sprintf("WriteTo: %v", err))
				}
			}
		}); p != "" {
			res.Violation = "adding a track to / exporting the value that was read: " + p
			return
		}
	}
	// queries: sorted
	qs := append([]int64{}, c.Queries...)
	sort.Slice(qs, func(i, j int) bool { return qs[i] < qs[j] })
	segs := tempo.Segments(changes, 1<<62)
	res.Classes = append(res.Classes, fmt.Sprintf("segments=%d", min(segs, 5)))
	rep := false
	for i := 1; i < len(changes); i++ {
		rep = rep || changes[i].AbsTick == changes[i-1].AbsTick
	}
	if rep {
		res.Classes = append(res.Classes, "repeated-tick")
	}
	if len(changes) > 0 && changes[0].AbsTick > 0 {
		res.Classes = append(res.Classes, "first-event-after-tick-0")
	}
	if len(changes) > 12 {
		res.Classes = append(res.Classes, ">12-tempo-events")
	}
	resR := big.NewInt(int64(c.Res))
	_ = resR
	var prev int64 = -1 << 62
	check := func(tick int64, got int64, what string) string {
		exact := tempo.Exact(int64(c.Res), changes, tick)
		k := tempo.Segments(changes, tick)
		diff := new(big.Rat).Sub(new(big.Rat).SetInt64(got), exact)
		diff.Abs(diff)
		if diff.Cmp(new(big.Rat).SetInt64(int64(k+1))) > 0 {
			f, _ := exact.Float64()
			return fmt.Sprintf("%s(%d) = %d us, exact integral of the tempo map = %.3f us (difference %s us > %d allowed for %d segments)", what, tick, got, f, diff.FloatString(3), k+1, k)
		}
		return ""
	}
	for _, q := range qs {
		if q < 0 || q >= 1<<32 {
			continue
		}
		if f, _ := tempo.Exact(int64(c.Res), changes, q).Float64(); f > horizonUS {
			continue
		}
		var got int64
		if p := ev.Try(func() { got = back.TimeAt(q) }); p != "" {
			res.Violation = fmt.Sprintf("TimeAt(%d): %s", q, p)
			return
		}
		if s := check(q, got, "TimeAt"); s != "" {
			res.Violation = s
			return
		}
		if got < prev {
			res.Violation = fmt.Sprintf("TimeAt is decreasing: TimeAt(%d) = %d after a smaller tick gave %d", q, got, prev)
			return
		}
		prev = got
		if tempo.Segments(changes, q) >= 2 {
			res.Nontrivial = true
		}
	}
	// per-event times handed out by TracksReader.Do
	if len(wantEvents) > 0 {
		var got []absEv
		var gotUS []int64
		var derr error
		if p := ev.TryTimeout(ev.Watchdog, func() {
			var trd *smf.TracksReader
			if c.Pipeline == 3 || len(c.Queries)%5 == 0 {
				// from a named file that held other contents of the same size a moment ago (the
				// same tracks with other tempi), which were read from there as well
				dir, err := os.MkdirTemp("", "verif-c11-")
				if err != nil {
					panic(err)
				}
				defer os.RemoveAll(dir)
				path := filepath.Join(dir, "song.mid")
				if err := os.WriteFile(path, adapt.TempoDecoy(buf.Bytes()), 0o644); err != nil {
					panic(err)
				}
				smf.ReadTracks(path).Do(func(smf.TrackEvent) {})
				if err := os.WriteFile(path, buf.Bytes(), 0o644); err != nil {
					panic(err)
				}
				trd = smf.ReadTracks(path)
			} else {
				trd = smf.ReadTracksFrom(bytes.NewReader(buf.Bytes()))
			}
			if len(c.Queries)%2 == 0 {
				trd = trd.Only(midi.NoteOnMsg) // every second case: iterate with a type filter
			}
			trd.Do(func(te smf.TrackEvent) {
				if te.Message.IsMeta() || !te.Message.Is(midi.NoteOnMsg) {
					return
				}
				got = append(got, absEv{te.TrackNo, te.AbsTicks})
				gotUS = append(gotUS, te.AbsMicroSeconds)
			})
			derr = trd.Error()
		}); p != "" || derr != nil {
			res.Violation = fmt.Sprintf("TracksReader.Do: %v %s", derr, p)
			return
		}
		if len(got) != len(wantEvents) {
			res.Violation = fmt.Sprintf("TracksReader.Do delivered %d channel events, file has %d", len(got), len(wantEvents))
			return
		}
		for i := range got {
			if got[i] != wantEvents[i] {
				res.Violation = fmt.Sprintf("TracksReader.Do event %d: track/abs tick %v, model %v", i, got[i], wantEvents[i])
				return
			}
			if f, _ := tempo.Exact(int64(c.Res), changes, got[i].abs).Float64(); f > horizonUS || got[i].abs >= 1<<32 {
				continue
			}
			if ta := back.TimeAt(got[i].abs); ta != gotUS[i] {
				res.Violation = fmt.Sprintf("TracksReader.Do event %d at tick %d: AbsMicroSeconds %d != TimeAt %d", i, got[i].abs, gotUS[i], ta)
				return
			}
			if s := check(got[i].abs, gotUS[i], "TrackEvent.AbsMicroSeconds at tick"); s != "" {
				res.Violation = s
				return
			}
		}
		res.Classes = append(res.Classes, "with-other-tracks")
	}
	return
}

func genCase(t *rapid.T) Case {
	var c Case
	c.Res = rapid.OneOf(rapid.SampledFrom([]uint16{1, 2, 24, 96, 480, 960, 15360, 32767}), rapid.Uint16Range(1, 32767)).Draw(t, "res")
	n := rapid.OneOf(rapid.IntRange(0, 6), rapid.IntRange(0, 40), rapid.IntRange(0, 6), rapid.IntRange(0, 40), rapid.IntRange(150, 500)).Draw(t, "nTempo")
	uspqGen := rapid.OneOf(rapid.SampledFrom([]uint32{1, 2, 1000, 250000, 500000, 1000000, 1<<24 - 2, 1<<24 - 1}), rapid.Uint32Range(1, 1<<24-1), rapid.Uint32Range(100000, 2000000))
	var abs int64
	var us float64
	cur := float64(tempo.DefaultUSPQ)
	var ticks []int64
	for i := 0; i < n; i++ {
		d := rapid.OneOf(rapid.Just(uint32(0)), rapid.Uint32Range(0, 3), rapid.Uint32Range(0, 2000), rapid.Uint32Range(0, 1<<20), rapid.Uint32Range(0, 0x0FFFFFFF)).Draw(t, "tempoDelta")
		if i == 0 && rapid.Bool().Draw(t, "firstAt0") {
			d = 0
		}
		// stay inside the horizon and below 2^32 ticks (constructive clamp)
		maxT := (horizonUS/2 - us) * float64(c.Res) / cur
		if float64(d) > maxT {
			d = uint32(max(0, maxT))
		}
		if abs+int64(d) >= 1<<31 {
			d = 0
		}
		abs += int64(d)
		us += float64(d) * cur / float64(c.Res)
		u := uspqGen.Draw(t, "uspq")
		cur = float64(u)
		c.Tempo = append(c.Tempo, TempoEv{d, u})
		ticks = append(ticks, abs)
		if rapid.IntRange(0, 6).Draw(t, "filler?") == 0 {
			c.Filler = append(c.Filler, i)
		}
	}
	stride := len(ticks)/25 + 1 // large maps: the neighbourhood of every stride-th tempo event only
	for i, tk := range ticks {
		if i%stride == 0 || i == len(ticks)-1 {
			c.Queries = append(c.Queries, tk-1, tk, tk+1)
		}
	}
	nq := rapid.IntRange(1, 12).Draw(t, "nQueries")
	maxQ := int64((horizonUS - us) * float64(c.Res) / cur)
	if maxQ > 1<<32-1-abs {
		maxQ = 1<<32 - 1 - abs
	}
	for i := 0; i < nq; i++ {
		q := rapid.OneOf(rapid.Int64Range(0, abs+1000), rapid.Int64Range(0, abs+max(maxQ, 1)), rapid.Just(abs+max(maxQ, 0)), rapid.Just(int64(1<<32-1))).Draw(t, "query")
		c.Queries = append(c.Queries, q)
	}
	if rapid.IntRange(0, 2).Draw(t, "others?") == 0 {
		k := rapid.IntRange(1, 3).Draw(t, "nOther")
		for i := 0; i < k; i++ {
			var notes []NoteEv
			m := rapid.IntRange(1, 8).Draw(t, "nNotes")
			var a int64
			for j := 0; j < m; j++ {
				d := rapid.OneOf(rapid.Uint32Range(0, 3), rapid.Uint32Range(0, uint32(min(abs+1000, 0x0FFFFFFF)))).Draw(t, "noteDelta")
				if a+int64(d) >= 1<<31 {
					d = 0
				}
				a += int64(d)
				notes = append(notes, NoteEv{d})
			}
			c.Others = append(c.Others, notes)
		}
		c.TempoPos = rapid.IntRange(0, len(c.Others)).Draw(t, "tempoTrackPosition")
	}
	c.Pipeline = rapid.SampledFrom([]int{0, 0, 0, 1, 2, 3}).Draw(t, "addOrExportBeforeQuery")
	return c
}

var maps = ev.NewCheck("C11", "tempo-maps",
	"rapid: resolution 1..32767, one tempo track with 0..40 raw FF 51 03 events (microseconds per quarter over 1..2^24-1, biased to extremes), deltas biased to 0 (repeated ticks), first event at tick 0 or later, optional non-tempo metas in between, optional 1..3 further tracks with channel events, placed before and/or after the tempo track; file written and read back, in half of the cases a further track is added to the value that was read (SMF.Add) and/or it is exported once (WriteTo) before any time is asked for; queries = every tempo tick and +-1, random ticks up to min(2^32-1, 8 days of map time); oracle = exact rational integral of the tempo map (120 BPM before the first event, last event at a tick wins): |TimeAt(t) - exact| <= k+1 us (k = distinct-tick segments below t), TimeAt non-decreasing, TracksReader.Do (from memory or, one case in three, from a named file that held the same tracks with other tempi a moment ago and was read then as well; plain, and with an Only(NoteOn) type filter where program changes carry the delta and the note follows on the same tick) gives AbsTicks per track and AbsMicroSeconds == TimeAt(AbsTicks); non-trivial = a query tick beyond the second tempo segment; distinct by case hash",
	genCase, run)

func TestPropTempoMaps(t *testing.T) { maps.Rapid(t, 3000, 60000) }

// ---- duration <-> ticks inverse ---------------------------------------------------------

type InvCase struct {
	Res   uint16
	USPQ  uint32  // bpm = 6e7/USPQ if != 0
	BPM   float64 // else this bpm
	Ticks uint32
}

func runInv(c InvCase) (res ev.Result) {
	bpm := c.BPM
	if c.USPQ != 0 {
		bpm = 6e7 / float64(c.USPQ)
	}
	if c.Res == 0 || c.Res > 32767 || bpm <= 0 {
		res.Skip = true
		return
	}
	// stated domain: duration < 2^40 us, tick rate < 1e7 per second
	durUS := float64(c.Ticks) * 6e7 / (bpm * float64(c.Res))
	rate := bpm * float64(c.Res) / 60
	if durUS >= 1<<40 || rate >= 1e7 {
		res.Skip = true
		return
	}
	mt := smf.MetricTicks(c.Res)
	var d time.Duration
	var back uint32
	if p := ev.Try(func() { d = mt.Duration(bpm, c.Ticks); back = mt.Ticks(bpm, d) }); p != "" {
		res.Violation = p
		return
	}
	res.Nontrivial = c.Ticks > 0
	if back != c.Ticks {
		res.Violation = fmt.Sprintf("MetricTicks(%d).Ticks(%v, Duration(%v, %d) = %v) = %d", c.Res, bpm, bpm, c.Ticks, d, back)
	}
	return
}

var inverse = ev.NewCheck("C11", "duration-ticks-inverse",
	"rapid: (resolution 1..32767, tempo as 24-bit microseconds-per-quarter value or float BPM 3.58..1000, ticks over uint32) restricted by construction to durations < 2^40 us and tick rates < 10^7/s; oracle: Ticks(bpm, Duration(bpm, n)) == n; non-trivial = n > 0",
	func(t *rapid.T) InvCase {
		var c InvCase
		c.Res = rapid.OneOf(rapid.SampledFrom([]uint16{1, 24, 96, 480, 960, 15360, 32767}), rapid.Uint16Range(1, 32767)).Draw(t, "res")
		if rapid.Bool().Draw(t, "asUSPQ") {
			// rate < 1e7  <=>  uspq > res*6
			lo := uint32(c.Res)*6 + 1
			c.USPQ = rapid.OneOf(rapid.Uint32Range(lo, 1<<24-1), rapid.SampledFrom([]uint32{lo, 500000, 1<<24 - 1})).Draw(t, "uspq")
		} else {
			c.BPM = rapid.Float64Range(3.58, 1000).Draw(t, "bpm")
		}
		bpm := c.BPM
		if c.USPQ != 0 {
			bpm = 6e7 / float64(c.USPQ)
		}
		maxTicks := float64(uint64(1)<<40) * bpm * float64(c.Res) / 6e7
		hi := uint32(1<<32 - 1)
		if maxTicks < float64(hi) {
			hi = uint32(maxTicks) - 1
		}
		c.Ticks = rapid.OneOf(rapid.Uint32Range(0, hi), rapid.Uint32Range(0, min(hi, 100000)), rapid.Just(hi)).Draw(t, "ticks")
		return c
	}, runInv)

func TestPropInverse(t *testing.T) { inverse.Rapid(t, 20000, 2000000) }

func TestReplay(t *testing.T) { ev.ReplayAll(t) }

// Package c08 decides property C08: message classification is total, unambiguous and
// consistent with the accessors.
package c08

import (
	"bytes"
	"fmt"
	"strings"
	"testing"

	"gitlab.com/gomidi/midi/v2"
	"gitlab.com/gomidi/midi/v2/smf"
	"gitlab.com/gomidi/midi/v2/zverif/ev"
	"gitlab.com/gomidi/midi/v2/zverif/gen"
	"gitlab.com/gomidi/midi/v2/zverif/live"
	"gitlab.com/gomidi/midi/v2/zverif/ref/smfref"
	"pgregory.net/rapid"
)

func TestMain(m *testing.M) { ev.Main(m) }

type Case struct {
	Bytes ev.Hex
}

var concreteMidi = []midi.Type{midi.TickMsg, midi.TimingClockMsg, midi.StartMsg, midi.ContinueMsg, midi.StopMsg, midi.ActiveSenseMsg, midi.ResetMsg,
	midi.NoteOnMsg, midi.NoteOffMsg, midi.ControlChangeMsg, midi.PitchBendMsg, midi.AfterTouchMsg, midi.PolyAfterTouchMsg, midi.ProgramChangeMsg,
	midi.MTCMsg, midi.SongSelectMsg, midi.SPPMsg, midi.TuneMsg}

var concreteMeta = []midi.Type{smf.MetaChannelMsg, smf.MetaCopyrightMsg, smf.MetaCuepointMsg, smf.MetaDeviceMsg, smf.MetaEndOfTrackMsg, smf.MetaInstrumentMsg,
	smf.MetaKeySigMsg, smf.MetaLyricMsg, smf.MetaTextMsg, smf.MetaMarkerMsg, smf.MetaPortMsg, smf.MetaSeqNumberMsg, smf.MetaSeqDataMsg, smf.MetaTempoMsg,
	smf.MetaTimeSigMsg, smf.MetaTrackNameMsg, smf.MetaSMPTEOffsetMsg, smf.MetaUndefinedMsg, smf.MetaProgramNameMsg}

type acc struct {
	name string
	typ  midi.Type
	ok   bool
}

// classifyMidi evaluates a byte string as midi.Message; it returns a violation or "".
func classifyMidi(b []byte) (v string) {
	m := midi.Message(b)
	if p := ev.Try(func() {
		ty := m.Type()
		_ = m.IsPlayable()
		_ = m.String()
		_ = ty.String()
		cats := 0
		var which []string
		for _, c := range []struct {
			n string
			t midi.Type
		}{{"channel", midi.ChannelMsg}, {"system common", midi.SysCommonMsg}, {"real-time", midi.RealTimeMsg}, {"sysex", midi.SysExMsg}, {"unknown", midi.UnknownMsg}} {
			if m.Is(c.t) {
				cats++
				which = append(which, c.n)
			}
		}
		if cats != 1 {
			v = fmt.Sprintf("midi.Message % X (type %v) belongs to %d categories %v, want exactly one", b, ty, cats, which)
			return
		}
		// Is/IsOneOf for every concrete type agree with Type()
		n := 0
		for _, ct := range concreteMidi {
			if m.Is(ct) {
				n++
				if ty != ct {
					v = fmt.Sprintf("midi.Message % X: Is(%v) is true but Type() is %v", b, ct, ty)
					return
				}
			}
		}
		if m.IsOneOf(concreteMidi...) != (n > 0) || m.IsOneOf() {
			v = fmt.Sprintf("midi.Message % X: IsOneOf disagrees with Is", b)
			return
		}
		var ch, x, y uint8
		var rel int16
		var abs, spp uint16
		var bt []byte
		as := []acc{
			{"GetNoteOn", midi.NoteOnMsg, m.GetNoteOn(&ch, &x, &y)},
			{"GetNoteOff", midi.NoteOffMsg, m.GetNoteOff(&ch, &x, &y)},
			{"GetPolyAfterTouch", midi.PolyAfterTouchMsg, m.GetPolyAfterTouch(&ch, &x, &y)},
			{"GetAfterTouch", midi.AfterTouchMsg, m.GetAfterTouch(&ch, &x)},
			{"GetProgramChange", midi.ProgramChangeMsg, m.GetProgramChange(&ch, &x)},
			{"GetPitchBend", midi.PitchBendMsg, m.GetPitchBend(&ch, &rel, &abs)},
			{"GetControlChange", midi.ControlChangeMsg, m.GetControlChange(&ch, &x, &y)},
			{"GetMTC", midi.MTCMsg, m.GetMTC(&x)},
			{"GetSongSelect", midi.SongSelectMsg, m.GetSongSelect(&x)},
			{"GetSPP", midi.SPPMsg, m.GetSPP(&spp)},
			{"GetSysEx", midi.SysExMsg, m.GetSysEx(&bt)},
		}
		_ = m.GetNoteStart(&ch, &x, &y)
		_ = m.GetNoteEnd(&ch, &x)
		_ = m.GetChannel(&ch)
		v = oneAccessor("midi.Message", b, ty, as)
	}); p != "" {
		return fmt.Sprintf("midi.Message % X: %s", b, p)
	}
	return v
}

func oneAccessor(kind string, b []byte, ty midi.Type, as []acc) string {
	var accepted []string
	for _, a := range as {
		if a.ok {
			accepted = append(accepted, a.name)
			if ty != a.typ {
				return fmt.Sprintf("%s % X: %s accepts it but Type() is %v, not %v", kind, b, a.name, ty, a.typ)
			}
		}
	}
	if len(accepted) > 1 {
		return fmt.Sprintf("%s % X is accepted by %d type-specific accessors: %v", kind, b, len(accepted), accepted)
	}
	return ""
}

// classifySMF evaluates a byte string as smf.Message.
func classifySMF(b []byte) (v string) {
	m := smf.Message(b)
	if p := ev.Try(func() {
		ty := m.Type()
		_ = m.IsPlayable()
		_ = m.String()
		_ = m.IsMeta()
		cats := 0
		var which []string
		for _, c := range []struct {
			n string
			t midi.Type
		}{{"channel", midi.ChannelMsg}, {"system common", midi.SysCommonMsg}, {"real-time", midi.RealTimeMsg}, {"sysex", midi.SysExMsg}, {"unknown", midi.UnknownMsg}, {"meta", smf.MetaMsg}} {
			if m.Is(c.t) {
				cats++
				which = append(which, c.n)
			}
		}
		if cats != 1 {
			v = fmt.Sprintf("smf.Message % X (type %v) belongs to %d categories %v, want exactly one", b, ty, cats, which)
			return
		}
		if len(b) > 0 && b[0] == 0xFF && m.IsPlayable() {
			v = fmt.Sprintf("smf.Message % X: a leading FF means a meta event in a file, but the message is reported as playable (it would be sent to an instrument as a reset)", b)
			return
		}
		if len(b) > 0 && b[0] == 0xFF && (m.Is(midi.RealTimeMsg) || m.Is(midi.ResetMsg)) {
			v = fmt.Sprintf("smf.Message % X: a leading FF means a meta event in a file, but it is classified as real-time reset", b)
			return
		}
		n := 0
		for _, ct := range append(append([]midi.Type{}, concreteMidi...), concreteMeta...) {
			if m.Is(ct) {
				n++
				if ty != ct {
					v = fmt.Sprintf("smf.Message % X: Is(%v) is true but Type() is %v", b, ct, ty)
					return
				}
			}
		}
		if n > 1 {
			v = fmt.Sprintf("smf.Message % X is of %d concrete types", b, n)
			return
		}
		if m.IsOneOf(append(append([]midi.Type{}, concreteMidi...), concreteMeta...)...) != (n > 0) || m.IsOneOf() {
			v = fmt.Sprintf("smf.Message % X: IsOneOf disagrees with Is", b)
			return
		}
		var ch, x, y, z, w, q uint8
		var rel int16
		var abs, u16 uint16
		var bt []byte
		var s string
		var f float64
		var k smf.Key
		var b1, b2 bool
		as := []acc{
			{"GetNoteOn", midi.NoteOnMsg, m.GetNoteOn(&ch, &x, &y)},
			{"GetNoteOff", midi.NoteOffMsg, m.GetNoteOff(&ch, &x, &y)},
			{"GetPolyAfterTouch", midi.PolyAfterTouchMsg, m.GetPolyAfterTouch(&ch, &x, &y)},
			{"GetAfterTouch", midi.AfterTouchMsg, m.GetAfterTouch(&ch, &x)},
			{"GetProgramChange", midi.ProgramChangeMsg, m.GetProgramChange(&ch, &x)},
			{"GetPitchBend", midi.PitchBendMsg, m.GetPitchBend(&ch, &rel, &abs)},
			{"GetControlChange", midi.ControlChangeMsg, m.GetControlChange(&ch, &x, &y)},
			{"GetSysEx", midi.SysExMsg, m.GetSysEx(&bt)},
			{"GetMetaTempo", smf.MetaTempoMsg, m.GetMetaTempo(&f)},
			{"GetMetaTimeSig", smf.MetaTimeSigMsg, m.GetMetaTimeSig(&x, &y, &z, &w)},
			{"GetMetaChannel", smf.MetaChannelMsg, m.GetMetaChannel(&x)},
			{"GetMetaPort", smf.MetaPortMsg, m.GetMetaPort(&x)},
			{"GetMetaSeqNumber", smf.MetaSeqNumberMsg, m.GetMetaSeqNumber(&u16)},
			{"GetMetaSMPTEOffsetMsg", smf.MetaSMPTEOffsetMsg, m.GetMetaSMPTEOffsetMsg(&x, &y, &z, &w, &q)},
			{"GetMetaSeqData", smf.MetaSeqDataMsg, m.GetMetaSeqData(&bt)},
			{"GetMetaKeySig", smf.MetaKeySigMsg, m.GetMetaKeySig(&x, &y, &b1, &b2)},
			{"GetMetaLyric", smf.MetaLyricMsg, m.GetMetaLyric(&s)},
			{"GetMetaCopyright", smf.MetaCopyrightMsg, m.GetMetaCopyright(&s)},
			{"GetMetaCuepoint", smf.MetaCuepointMsg, m.GetMetaCuepoint(&s)},
			{"GetMetaDevice", smf.MetaDeviceMsg, m.GetMetaDevice(&s)},
			{"GetMetaInstrument", smf.MetaInstrumentMsg, m.GetMetaInstrument(&s)},
			{"GetMetaMarker", smf.MetaMarkerMsg, m.GetMetaMarker(&s)},
			{"GetMetaProgramName", smf.MetaProgramNameMsg, m.GetMetaProgramName(&s)},
			{"GetMetaText", smf.MetaTextMsg, m.GetMetaText(&s)},
			{"GetMetaTrackName", smf.MetaTrackNameMsg, m.GetMetaTrackName(&s)},
		}
		// derived views: no panic, and consistent with their base accessor
		if m.GetMetaMeter(&x, &y) != as[9].ok || m.GetMetaKey(&k) != as[15].ok {
			v = fmt.Sprintf("smf.Message % X: GetMetaMeter/GetMetaKey disagree with GetMetaTimeSig/GetMetaKeySig", b)
			return
		}
		_ = m.GetNoteStart(&ch, &x, &y)
		_ = m.GetNoteEnd(&ch, &x)
		_ = m.GetChannel(&ch)
		v = oneAccessor("smf.Message", b, ty, as)
	}); p != "" {
		return fmt.Sprintf("smf.Message % X: %s", b, p)
	}
	return v
}

func run(c Case) (res ev.Result) {
	res.Key = c.Bytes
	res.Nontrivial = len(c.Bytes) > 0 && c.Bytes[0] >= 0x80
	if v := classifyMidi(c.Bytes); v != "" {
		res.Violation = v
		return
	}
	res.Violation = classifySMF(c.Bytes)
	return
}

var short = ev.NewCheck("C08", "strings-0-3",
	"exhaustive: all byte strings of length 0..2 (quick) plus a stride over all 3-byte strings; thorough: all 16 843 009 strings of length 0..3, sharded; each as midi.Message and as smf.Message; oracle (under recover): Type/Is/IsOneOf/IsPlayable/String and every accessor with non-nil out-parameters do not panic; exactly one category (channel / system common / real-time / sysex / unknown, or meta for file messages; leading FF never real-time there); Is(concrete) agrees with Type(); at most one type-specific accessor accepts (GetNoteStart/GetNoteEnd/GetChannel/GetMetaMeter/GetMetaKey are derived views) and only if Type() is its type; non-trivial = first byte >= 0x80; distinct by construction",
	nil, run)

func TestEnumShortStrings(t *testing.T) {
	short.R.Exhaustive = ev.Thorough()
	var n, nt int64
	buf := make([]byte, 0, 3)
	failed := false
	one := func(b []byte) {
		n++
		if len(b) > 0 && b[0] >= 0x80 {
			nt++
		}
		if v := classifyMidi(b); v != "" {
			failed = true
			short.R.AddEnum(n, nt, "")
			short.R.Fail(t, Case{append([]byte{}, b...)}, "%s", v)
		} else if v := classifySMF(b); v != "" {
			failed = true
			short.R.AddEnum(n, nt, "")
			short.R.Fail(t, Case{append([]byte{}, b...)}, "%s", v)
		}
	}
	total := int64(1 + 256 + 65536 + 16777216)
	lo, hi := ev.ShardRange(total)
	step := int64(1)
	for idx := lo; idx < hi && !failed; idx += step {
		buf = buf[:0]
		switch {
		case idx == 0:
		case idx < 1+256:
			buf = append(buf, byte(idx-1))
		case idx < 1+256+65536:
			v := idx - 257
			buf = append(buf, byte(v>>8), byte(v))
		default:
			v := idx - 65793
			buf = append(buf, byte(v>>16), byte(v>>8), byte(v))
			if !ev.Thorough() {
				step = 53 // quick: a stride over the 3-byte strings
			}
		}
		one(buf)
	}
	short.R.Sample(Case{[]byte{0xFF, 0x51, 0x03}})
	short.R.AddEnum(n, nt, "")
}

// ---- longer strings -----------------------------------------------------------------------

var long = ev.NewCheck("C08", "strings-4-64",
	"fixed list first (every known meta type x payloads of 1..5 bytes x one byte at the edges of the signed and unsigned 7- and 8-bit ranges), then rapid: byte strings of length 4..64 biased to start with each status class (channel kinds, F0..F7, real-time, FF + meta type + VLQ length + payload with a declared text length <= 2^16; FF + type + a run of 1..20 continuation bytes as length field; complete frames wrapped in real-time bytes; meta events whose type byte is a status byte and whose payload ends in F7/FF; two frames glued together; runs of one byte class; universal sysex messages such as MTC full frame and MMC commands; text and sequencer-data metas of 1..400 bytes made of one byte class: UTF-8 continuation bytes, lead bytes, one repeated byte, multi-byte runes cut inside a rune, ASCII), plus every message produced by the meta constructors, by MetaUndefined(any type, payload) and by the reader on byte-level generated files; same oracle; non-trivial = first byte >= 0x80; distinct by bytes",
	func(t *rapid.T) Case {
		var b []byte
		frame := func() []byte {
			switch rapid.IntRange(0, 3).Draw(t, "frameKind") {
			case 0:
				return gen.SysexMessage(t, 20)
			case 1:
				return gen.ChannelMessage(t, nil)
			case 2:
				return gen.MetaMessage(t, 20)
			default:
				return rapid.SampledFrom([][]byte{{0xF1, 0x05}, {0xF2, 0x01, 0x02}, {0xF3, 0x07}, {0xF6}, {0xF0, 0xF7}, {0xF7}, {0xF0}}).Draw(t, "sysCommonFrame")
			}
		}
		switch rapid.IntRange(0, 13).Draw(t, "shape") {
		case 13: // long texts made of one class of bytes (what text handling might trip over)
			n := rapid.OneOf(rapid.IntRange(1, 80), rapid.IntRange(60, 70), rapid.IntRange(1, 400)).Draw(t, "textLen")
			var p []byte
			switch rapid.IntRange(0, 6).Draw(t, "textClass") {
			case 0:
				p = rapid.SliceOfN(rapid.ByteRange(0x80, 0xBF), n, n).Draw(t, "continuationBytes")
			case 1:
				p = rapid.SliceOfN(rapid.ByteRange(0xC0, 0xFF), n, n).Draw(t, "leadBytes")
			case 2:
				p = bytes.Repeat([]byte{rapid.SampledFrom([]byte{0x00, 0xFF, 0x80, 0xBF, 0xC0, 0x20, 0x0A}).Draw(t, "fill")}, n)
			case 3:
				p = []byte(strings.Repeat(rapid.SampledFrom([]string{"é", "漢", "\U0001F3B5", "a\u0301"}).Draw(t, "rune"), n/2+1))
				p = p[:min(len(p), n)] // possibly cut inside a rune
			case 4:
				p = rapid.SliceOfN(rapid.ByteRange(0x20, 0x7E), n, n).Draw(t, "ascii")
			default:
				p = rapid.SliceOfN(rapid.Byte(), n, n).Draw(t, "anyBytes")
			}
			if rapid.IntRange(0, 3).Draw(t, "seqData?") == 0 && len(p) > 0 {
				b = smf.MetaSequencerData(p)
			} else {
				b = textCtors[rapid.IntRange(0, len(textCtors)-1).Draw(t, "textCtor")](string(p))
			}
		case 12: // universal sysex messages whose content resembles other message classes
			b = append([]byte{}, rapid.SampledFrom(live.WellKnownSysex(rapid.SampledFrom([]byte{0x7F, 0, 0x10}).Draw(t, "dev"))).Draw(t, "wellKnownSysex")...)
		case 7: // meta-like whose length field is a long run of continuation bytes (over-long VLQ)
			typ := rapid.OneOf(rapid.SampledFrom([]byte{1, 2, 3, 4, 5, 6, 7, 8, 9, 0x7F, 0x51, 0x58, 0x59, 0x2F, 0x00, 0x20, 0x21, 0x54}), rapid.Byte()).Draw(t, "metaType")
			b = []byte{0xFF, typ}
			b = append(b, rapid.SliceOfN(rapid.ByteRange(0x80, 0xFF), 1, 20).Draw(t, "continuationRun")...)
			if rapid.Bool().Draw(t, "terminated?") {
				// the library computes the length modulo 2^32 and allocates that much before it
				// looks at the data: keep the low 32 bits small (the groups above them stay arbitrary)
				// so that a case costs kilobytes, not gigabytes
				b[len(b)-1] &= 0xF0
				b = append(b, 0x80, 0x80, 0x80)
				b = append(b, rapid.ByteRange(0, 0x7F).Draw(t, "lastLengthByte"))
				b = append(b, rapid.SliceOfN(rapid.Byte(), 0, 12).Draw(t, "payload")...)
			}
		case 8: // a complete frame wrapped in real-time bytes
			b = rapid.SliceOfN(rapid.ByteRange(0xF8, 0xFF), 1, 3).Draw(t, "realtimePrefix")
			b = append(b, frame()...)
			b = append(b, rapid.SliceOfN(rapid.ByteRange(0xF8, 0xFF), 0, 2).Draw(t, "realtimeSuffix")...)
		case 9: // a meta event whose type byte or payload looks like another message
			typ := rapid.SampledFrom([]byte{0xF0, 0xF7, 0xFF, 0x90, 0xB0, 0xF8, 0xF1, 0xF2, 0x80, 0xC5}).Draw(t, "statusLikeType")
			b = smf.MetaUndefined(typ, append(rapid.SliceOfN(rapid.Byte(), 0, 8).Draw(t, "payload"), rapid.SampledFrom([]byte{0xF7, 0xFF, 0x00, 0x2F}).Draw(t, "lastPayloadByte")))
		case 10: // two frames glued together
			b = append(frame(), frame()...)
		case 11: // a run of one byte class
			lo := rapid.SampledFrom([]byte{0x80, 0xF0, 0xF7, 0xF8, 0xFF}).Draw(t, "classLow")
			b = rapid.SliceOfN(rapid.ByteRange(lo, 0xFF), 4, 40).Draw(t, "classRun")
		case 0:
			b = rapid.SliceOfN(rapid.Byte(), 4, 64).Draw(t, "random")
		case 1:
			st := rapid.ByteRange(0x80, 0xFF).Draw(t, "status")
			b = append([]byte{st}, rapid.SliceOfN(rapid.Byte(), 3, 20).Draw(t, "rest")...)
		case 2: // meta-like with a short declared length
			typ := rapid.OneOf(rapid.SampledFrom([]byte{0, 1, 2, 3, 4, 5, 6, 7, 8, 9, 0x20, 0x21, 0x2F, 0x51, 0x54, 0x58, 0x59, 0x7F}), rapid.Byte()).Draw(t, "metaType")
			decl := rapid.OneOf(rapid.Uint32Range(0, 10), rapid.Uint32Range(0, 1<<16)).Draw(t, "declLen")
			b = append([]byte{0xFF, typ}, smfref.VLQ(decl)...)
			b = append(b, rapid.SliceOfN(rapid.Byte(), 0, 12).Draw(t, "payload")...)
		case 3:
			b = gen.MetaMessage(t, 200)
		case 4:
			b = smf.MetaUndefined(rapid.Byte().Draw(t, "undefType"), rapid.SliceOfN(rapid.Byte(), 0, 40).Draw(t, "undefPayload"))
		case 5:
			b = gen.SysexMessage(t, 60)
		default:
			b = gen.ChannelMessage(t, nil)
			b = append(b, rapid.SliceOfN(rapid.Byte(), 0, 3).Draw(t, "extra")...)
		}
		return Case{b}
	}, run)

func TestPropLongStrings(t *testing.T) { long.Rapid(t, 6000, 60000) }

// TestEnumMetaExtremes: every meta type the library knows, with payloads of 1..5 bytes in which one
// byte after the other takes the values at the edges of the signed and unsigned 7- and 8-bit ranges
// (a key signature with -128 accidentals, a time signature with exponent 255, ...). Fixed list,
// evaluated by shard 0 in both tiers.
func TestEnumMetaExtremes(t *testing.T) {
	if ev.Shard() != 0 {
		return
	}
	types := []byte{0x00, 0x01, 0x02, 0x03, 0x04, 0x05, 0x06, 0x07, 0x08, 0x09, 0x20, 0x21, 0x2F, 0x51, 0x54, 0x58, 0x59, 0x7F}
	edges := []byte{0x00, 0x01, 0x07, 0x08, 0x3F, 0x40, 0x7F, 0x80, 0x81, 0xF8, 0xF9, 0xFE, 0xFF}
	for _, typ := range types {
		for n := 1; n <= 5; n++ {
			for pos := 0; pos < n; pos++ {
				for _, e := range edges {
					b := []byte{0xFF, typ, byte(n)}
					for k := 0; k < n; k++ {
						b = append(b, 0x01)
					}
					b[3+pos] = e
					long.One(t, Case{b})
					if t.Failed() {
						return
					}
				}
			}
		}
	}
}

// messages the reader produces on generated files
type FileCase struct{ File smfref.File }

var fromReader = ev.NewCheck("C08", "reader-messages",
	"rapid: byte-level generated valid files (C02 grammar, payloads <= 300) are read with smf.ReadFrom and every message of the result is classified; same oracle; non-trivial = file with at least one meta or sysex event",
	func(t *rapid.T) FileCase {
		o := gen.AllFreedoms
		o.MaxAlien = 300
		o.MaxPayload = 300
		return FileCase{gen.File(t, o)}
	},
	func(c FileCase) (res ev.Result) {
		s, err := smf.ReadFrom(bytes.NewReader(smfref.Build(c.File)))
		if err != nil {
			res.Skip = true // C02's business
			return
		}
		for _, tr := range s.Tracks {
			for _, e := range tr {
				if len(e.Message) > 0 && e.Message[0] >= 0xF0 && !bytes.Equal(e.Message, smf.EOT) {
					res.Nontrivial = true
				}
				if v := classifySMF(e.Message); v != "" {
					res.Violation = v
					return
				}
				if v := classifyMidi(e.Message); v != "" {
					res.Violation = v
					return
				}
			}
		}
		return
	})

func TestPropReaderMessages(t *testing.T) { fromReader.Rapid(t, 300, 20000) }

func TestReplay(t *testing.T) { ev.ReplayAll(t) }

var textCtors = []func(string) smf.Message{smf.MetaText, smf.MetaLyric, smf.MetaMarker, smf.MetaCuepoint, smf.MetaCopyright, smf.MetaInstrument, smf.MetaDevice, smf.MetaProgram, smf.MetaTrackSequenceName}

package gen

import (
	"bytes"
	"fmt"
	"gitlab.com/gomidi/midi/v2/zverif/noise"
	"io"

	"gitlab.com/gomidi/midi/v2"
	"gitlab.com/gomidi/midi/v2/smf"
	"gitlab.com/gomidi/midi/v2/zverif/hx"
	"gitlab.com/gomidi/midi/v2/zverif/ref/smfref"
	"pgregory.net/rapid"
)

// Op is one call of the Track API in a generated history.
type Op struct {
	Kind  string // "add" (one or several messages, also none), "close"
	Delta uint32
	Msgs  []hx.B `json:",omitempty"`
}

// TrackOps is the history of one track; the track is handed to SMF.Add afterwards.
type TrackOps struct {
	Ops []Op
}

// APICase is a history of public API calls that builds an SMF value.
type APICase struct {
	Ctor            string // New | NewSMF1 | NewSMF2
	SetDivision     bool   // false: keep the constructor's default (960 metric ticks)
	Division        uint16
	NoRunningStatus bool
	Tracks          []TrackOps
	// WriteAfter > 0: the value is written once (to a discarding writer) after that many
	// tracks have been added, then the remaining tracks are added (write - modify - write).
	WriteAfter int `json:",omitempty"`
	// ViaRead: that intermediate write goes to a buffer, is read back with ReadFrom and the
	// remaining tracks are added to the value that was read (read - modify - write).
	ViaRead bool `json:",omitempty"`
	// ToggleRS: NoRunningStatus has the opposite value until the intermediate write and gets its
	// final value (NoRunningStatus above) afterwards: the option must be honoured per write.
	ToggleRS bool `json:",omitempty"`
	// FailFirstAt > 0: before anything else is written, the finished value is written once to a
	// destination that fails after FailFirstAt-1 bytes; the value must still write correctly afterwards.
	FailFirstAt int `json:",omitempty"`
	// DirectAppend: the tracks after the first one (after the intermediate write, if there is one)
	// are appended to the exported Tracks field instead of being handed to SMF.Add — the two ways
	// of filling a value are mixed
	DirectAppend bool `json:",omitempty"`
	// EarlierDivision != 0: every write before the final one (the intermediate write, the failing
	// write, and with WriteAtEnd a complete write of the finished value) is done with this time
	// division in the TimeFormat field; the field gets its final value only afterwards
	// (write - assign TimeFormat - write again).
	EarlierDivision uint16 `json:",omitempty"`
	WriteAtEnd      bool   `json:",omitempty"`
}

// Model is the pure model of what the history means (never consults the library).
type Model struct {
	Format   uint16
	Division uint16
	Tracks   [][]smfref.NEvent // including the final end-of-track
}

var eot = []byte{0xFF, 0x2F, 0x00}

// ModelOf evaluates the history on the model of the Track/SMF API:
// Add gives the delta to the first message and 0 to the others, is a no-op on a closed
// track; Close appends end-of-track once; open tracks are closed with delta 0 when written;
// format 0 becomes 1 as soon as there is more than one track.
func ModelOf(c APICase) Model {
	var m Model
	switch c.Ctor {
	case "NewSMF1":
		m.Format = 1
	case "NewSMF2":
		m.Format = 2
	}
	m.Division = 960
	if c.SetDivision {
		m.Division = c.Division
	}
	for _, to := range c.Tracks {
		var tr []smfref.NEvent
		closed := false
		for _, op := range to.Ops {
			if closed {
				continue
			}
			switch op.Kind {
			case "add":
				d := op.Delta
				for _, msg := range op.Msgs {
					tr = append(tr, smfref.NEvent{Delta: d, Msg: append([]byte{}, msg...)})
					d = 0
				}
			case "close":
				tr = append(tr, smfref.NEvent{Delta: op.Delta, Msg: eot})
				closed = true
			}
		}
		if !closed {
			tr = append(tr, smfref.NEvent{Delta: 0, Msg: eot})
		}
		m.Tracks = append(m.Tracks, tr)
	}
	if len(m.Tracks) > 1 && m.Format == 0 {
		m.Format = 1
	}
	return m
}

// TimeFormatOf builds the library time format for a raw division word.
func TimeFormatOf(div uint16) smf.TimeFormat {
	if div&0x8000 == 0 {
		return smf.MetricTicks(div)
	}
	fps := uint8(256 - int(div>>8))
	switch fps {
	case 24:
		return smf.SMPTE24(uint8(div))
	case 25:
		return smf.SMPTE25(uint8(div))
	case 29:
		return smf.SMPTE30DropFrame(uint8(div))
	default:
		return smf.SMPTE30(uint8(div))
	}
}

// BuildLib replays the history on the library's public API.
func BuildLib(c APICase) *smf.SMF {
	var s *smf.SMF
	switch c.Ctor {
	case "NewSMF1":
		s = smf.NewSMF1()
	case "NewSMF2":
		s = smf.NewSMF2()
	default:
		s = smf.New()
	}
	if c.SetDivision {
		s.TimeFormat = TimeFormatOf(c.Division)
	}
	s.NoRunningStatus = c.NoRunningStatus
	if (len(c.Tracks)+int(c.Division))%2 == 1 {
		s.Logger = nopLogger{} // a logger must not change what is written
	}
	if c.ToggleRS && c.WriteAfter > 0 {
		s.NoRunningStatus = !c.NoRunningStatus
	}
	finalTF := s.TimeFormat
	if c.EarlierDivision != 0 {
		s.TimeFormat = TimeFormatOf(c.EarlierDivision)
	}
	for i, to := range c.Tracks {
		if c.WriteAfter > 0 && i == c.WriteAfter {
			if c.ViaRead {
				var buf bytes.Buffer
				if _, err := s.WriteTo(&buf); err == nil {
					if back, err := smf.ReadFrom(bytes.NewReader(buf.Bytes())); err == nil {
						back.NoRunningStatus = c.NoRunningStatus
						s = back
					}
				}
			} else {
				s.WriteTo(io.Discard)
			}
			s.NoRunningStatus = c.NoRunningStatus
		}
		var tr smf.Track
		for _, op := range to.Ops {
			switch op.Kind {
			case "add":
				msgs := make([][]byte, len(op.Msgs))
				for i, m := range op.Msgs {
					msgs[i] = append([]byte{}, m...)
				}
				tr.Add(op.Delta, msgs...)
			case "close":
				tr.Close(op.Delta)
			}
		}
		if c.DirectAppend && i >= max(1, c.WriteAfter) {
			s.Tracks = append(s.Tracks, tr)
		} else {
			s.Add(tr)
		}
		noise.Between() // other values are created and filled while this one is being built
	}
	if c.FailFirstAt > 0 {
		s.WriteTo(&failAfter{budget: c.FailFirstAt - 1})
	}
	if c.WriteAtEnd {
		s.WriteTo(io.Discard)
	}
	s.TimeFormat = finalTF
	return s
}

type failAfter struct{ budget int }

func (w *failAfter) Write(p []byte) (int, error) {
	if len(p) <= w.budget {
		w.budget -= len(p)
		return len(p), nil
	}
	n := w.budget
	w.budget = 0
	return n, io.ErrShortWrite
}

// ChannelMessage draws a channel message through the public constructors. prev (if a
// channel message) is re-used as status with some probability to create running-status runs.
func ChannelMessage(t *rapid.T, prev []byte) []byte {
	d7 := rapid.OneOf(rapid.ByteRange(0, 127), rapid.SampledFrom([]byte{0, 1, 64, 127}))
	ch := rapid.ByteRange(0, 15).Draw(t, "ch")
	kind := rapid.IntRange(0, 7).Draw(t, "chKind")
	if len(prev) > 0 && prev[0] >= 0x80 && prev[0] < 0xF0 && rapid.IntRange(0, 2).Draw(t, "sameStatus?") > 0 {
		ch = prev[0] & 0x0F
		kind = map[byte]int{0x80: 1, 0x90: 0, 0xA0: 2, 0xB0: 3, 0xC0: 4, 0xD0: 5, 0xE0: 6}[prev[0]&0xF0]
	}
	a, b := d7.Draw(t, "d1"), d7.Draw(t, "d2")
	switch kind {
	case 0, 7:
		return midi.NoteOn(ch, a, b)
	case 1:
		if b == 0 {
			return midi.NoteOff(ch, a)
		}
		return midi.NoteOffVelocity(ch, a, b)
	case 2:
		return midi.PolyAfterTouch(ch, a, b)
	case 3:
		return midi.ControlChange(ch, a, b)
	case 4:
		return midi.ProgramChange(ch, a)
	case 5:
		return midi.AfterTouch(ch, a)
	default:
		return midi.Pitchbend(ch, int16(rapid.IntRange(-8192, 8191).Draw(t, "pitch")))
	}
}

var textCtors = []func(string) smf.Message{smf.MetaLyric, smf.MetaCopyright, smf.MetaCuepoint, smf.MetaDevice, smf.MetaInstrument,
	smf.MetaMarker, smf.MetaProgram, smf.MetaText, smf.MetaTrackSequenceName}

// MetaMessage draws a meta message through the public constructors (never end-of-track).
func MetaMessage(t *rapid.T, maxPayload int) []byte {
	switch rapid.IntRange(0, 11).Draw(t, "metaKind") {
	case 0, 1, 2:
		n := PayloadLen(maxPayload).Draw(t, "textLen")
		return textCtors[rapid.IntRange(0, len(textCtors)-1).Draw(t, "textCtor")](string(Payload(t, n, "text")))
	case 3:
		n := PayloadLen(maxPayload).Draw(t, "seqDataLen")
		if n == 0 {
			n = 1
		}
		return smf.MetaSequencerData(Payload(t, n, "seqData"))
	case 4:
		return smf.MetaChannel(rapid.Byte().Draw(t, "metaCh"))
	case 5:
		return smf.MetaPort(rapid.Byte().Draw(t, "metaPort"))
	case 6:
		return smf.MetaSequenceNo(rapid.Uint16().Draw(t, "seqNo"))
	case 7:
		b := rapid.SliceOfN(rapid.Byte(), 5, 5).Draw(t, "smpte")
		return smf.MetaSMPTE(b[0], b[1], b[2], b[3], b[4])
	case 8:
		bpm := rapid.OneOf(rapid.Float64Range(3.6, 1000), rapid.SampledFrom([]float64{120, 60, 3.58, 500, 60000000})).Draw(t, "bpm")
		return smf.MetaTempo(bpm)
	case 9:
		return smf.MetaTimeSig(rapid.Byte().Draw(t, "num"), rapid.SampledFrom([]byte{1, 2, 4, 8, 16, 32, 64, 128}).Draw(t, "den"),
			rapid.Byte().Draw(t, "clocks"), rapid.Byte().Draw(t, "dsq"))
	case 10:
		return smf.MetaKey(rapid.ByteRange(0, 11).Draw(t, "key"), rapid.Bool().Draw(t, "major"), rapid.ByteRange(0, 7).Draw(t, "num"), rapid.Bool().Draw(t, "flat"))
	default:
		typ := rapid.SampledFrom([]byte{0x0A, 0x10, 0x22, 0x2E, 0x30, 0x52, 0x60, 0x7E, 0x01, 0x51, 0x7F}).Draw(t, "undefType")
		n := PayloadLen(min(maxPayload, 300)).Draw(t, "undefLen")
		return smf.MetaUndefined(typ, Payload(t, n, "undef"))
	}
}

// SysexMessage draws F0..F7, F0 without F7 or an F7 escape packet in the library's form.
func SysexMessage(t *rapid.T, maxPayload int) []byte {
	n := PayloadLen(maxPayload).Draw(t, "syxLen")
	p := Payload(t, n, "syx")
	switch rapid.IntRange(0, 3).Draw(t, "syxKind") {
	case 0, 1:
		return midi.SysEx(p)
	case 2:
		return append([]byte{0xF0}, p...)
	default:
		return append([]byte{0xF7}, p...)
	}
}

// APIOpts bounds the API history generator.
type APIOpts struct {
	MaxTracks  int
	MaxOps     int
	MaxPayload int
	MaxDelta   uint32
	// LongTracks > 0: one track in LongTracks gets 1000..5000 Add calls (short payloads, small deltas)
	LongTracks int
}

// Message draws any message of the C01 domain.
func Message(t *rapid.T, prev []byte, maxPayload int) []byte {
	k := rapid.IntRange(0, 9).Draw(t, "msgKind")
	switch {
	case k <= 5:
		return ChannelMessage(t, prev)
	case k <= 7:
		return MetaMessage(t, maxPayload)
	default:
		return SysexMessage(t, maxPayload)
	}
}

// API draws a history of API calls.
func API(t *rapid.T, o APIOpts) APICase {
	var c APICase
	c.Ctor = rapid.SampledFrom([]string{"New", "New", "NewSMF1", "NewSMF2"}).Draw(t, "ctor")
	c.SetDivision = rapid.IntRange(0, 4).Draw(t, "setDivision?") > 0
	if c.SetDivision {
		c.Division = Division().Draw(t, "division")
	}
	c.NoRunningStatus = rapid.Bool().Draw(t, "noRunningStatus")
	ntr := rapid.SampledFrom([]int{1, 1, 1, 2, 2, 3, o.MaxTracks}).Draw(t, "nTracks")
	if ntr < 1 {
		ntr = 1
	}
	for i := 0; i < ntr; i++ {
		var to TrackOps
		nops := rapid.IntRange(0, o.MaxOps).Draw(t, "nOps")
		o := o
		if o.LongTracks > 0 && rapid.IntRange(0, o.LongTracks-1).Draw(t, "longTrack?") == 0 {
			nops = rapid.IntRange(1000, 5000).Draw(t, "nOpsLong")
			o.MaxPayload, o.MaxDelta = min(o.MaxPayload, 40), min(o.MaxDelta, 3)
		}
		var prev []byte
		closeAt := -1
		switch rapid.IntRange(0, 3).Draw(t, "closeMode") {
		case 0: // omitted
		case 1: // early: ops after it must be ignored
			closeAt = rapid.IntRange(0, nops).Draw(t, "closeAt")
		default: // late
			closeAt = nops
		}
		for j := 0; j <= nops; j++ {
			if j == closeAt {
				to.Ops = append(to.Ops, Op{Kind: "close", Delta: Delta(o.MaxDelta).Draw(t, "closeDelta")})
			}
			if j == nops {
				break
			}
			op := Op{Kind: "add", Delta: Delta(o.MaxDelta).Draw(t, "delta")}
			k := rapid.SampledFrom([]int{1, 1, 1, 1, 2, 3, 0}).Draw(t, "nMsgs")
			for x := 0; x < k; x++ {
				m := Message(t, prev, o.MaxPayload)
				prev = m
				op.Msgs = append(op.Msgs, m)
			}
			to.Ops = append(to.Ops, op)
		}
		c.Tracks = append(c.Tracks, to)
	}
	if ntr >= 2 && rapid.IntRange(0, 3).Draw(t, "writeInBetween?") == 0 {
		c.WriteAfter = rapid.IntRange(1, ntr-1).Draw(t, "writeAfter")
		c.ViaRead = rapid.Bool().Draw(t, "viaRead")
		c.ToggleRS = rapid.IntRange(0, 2).Draw(t, "toggleRunningStatus") == 0
	}
	if ntr >= 2 && rapid.IntRange(0, 5).Draw(t, "sameTempoInEveryTrack?") == 0 {
		// the usual multi-track layout: every track starts with the same tempo event at tick 0
		for i := range c.Tracks {
			c.Tracks[i].Ops = append([]Op{{Kind: "add", Delta: 0, Msgs: []hx.B{hx.B(smf.MetaTempo(120)), hx.B(smf.MetaTempo(120))}}}, c.Tracks[i].Ops...)
		}
	}
	if ntr >= 2 && rapid.IntRange(0, 4).Draw(t, "directAppend?") == 0 {
		c.DirectAppend = true
	}
	if rapid.IntRange(0, 5).Draw(t, "failedWriteFirst?") == 0 {
		c.FailFirstAt = rapid.OneOf(rapid.IntRange(1, 40), rapid.IntRange(1, 400)).Draw(t, "failFirstAt")
	}
	if rapid.IntRange(0, 5).Draw(t, "completeWriteFirst?") == 0 {
		c.WriteAtEnd = true
	}
	if (c.WriteAtEnd || c.FailFirstAt > 0 || c.WriteAfter > 0) && rapid.Bool().Draw(t, "retimeAfterWrite?") {
		c.EarlierDivision = Division().Draw(t, "earlierDivision")
	}
	return c
}

// APIClasses names the interesting features of a history (histogram / non-trivial rule).
func APIClasses(c APICase) (classes []string, nontrivial bool) {
	set := map[string]bool{}
	m := ModelOf(c)
	if len(m.Tracks) >= 2 {
		set[">=2-tracks"] = true
	}
	if m.Division&0x8000 != 0 {
		set["smpte"] = true
	}
	multi := false
	for _, tr := range m.Tracks {
		if len(tr) >= 3 {
			multi = true
		}
		for i, e := range tr {
			if e.Delta >= 128 {
				set["delta>=128"] = true
			}
			if e.Delta > 0x0FFFFFFF {
				set["delta>0FFFFFFF"] = true
			}
			if (e.Msg[0] == 0xFF || e.Msg[0] == 0xF0 || e.Msg[0] == 0xF7) && len(e.Msg) >= 131 {
				set["payload>=128"] = true
			}
			if i > 0 && e.Msg[0] < 0xF0 && tr[i-1].Msg[0] == e.Msg[0] {
				set["running-status-run"] = true
			}
			if i > 0 && e.Msg[0] < 0xF0 && tr[i-1].Msg[0] >= 0xF0 {
				set["channel-after-meta/sysex"] = true
			}
		}
	}
	for _, to := range c.Tracks {
		for i, op := range to.Ops {
			if op.Kind == "close" && i < len(to.Ops)-1 {
				set["early-close"] = true
			}
			if op.Kind == "add" && len(op.Msgs) > 1 {
				set["multi-add"] = true
			}
		}
		if n := len(to.Ops); n == 0 || to.Ops[n-1].Kind != "close" {
			closed := false
			for _, op := range to.Ops {
				closed = closed || op.Kind == "close"
			}
			if !closed {
				set["close-omitted"] = true
			}
		}
	}
	if c.NoRunningStatus {
		set["no-running-status"] = true
	}
	if c.FailFirstAt > 0 {
		set["write-after-failed-write"] = true
	}
	if c.ToggleRS {
		set["running-status-option-toggled"] = true
	}
	if c.WriteAtEnd {
		set["written-completely-before"] = true
	}
	if c.EarlierDivision != 0 {
		set["time-format-assigned-after-a-write"] = true
	}
	if c.DirectAppend {
		set["tracks-appended-to-the-field"] = true
	}
	if c.WriteAfter > 0 && c.ViaRead {
		set["read-modify-write"] = true
	} else if c.WriteAfter > 0 {
		set["write-modify-write"] = true
	}
	for k := range set {
		classes = append(classes, k)
	}
	nontrivial = multi && (set["running-status-run"] || set["payload>=128"] || set["delta>=128"] || set["smpte"] || set["early-close"] || set[">=2-tracks"])
	return
}

func (c APICase) String() string { return fmt.Sprintf("%+v", ModelOf(c)) }

type nopLogger struct{}

func (nopLogger) Printf(format string, vals ...interface{}) {}

// ExactSizeTrack builds a history with one small first track and a last track whose encoded body
// (the bytes after the MTrk chunk header) has exactly the given size: one sysex sized to fit.
func ExactSizeTrack(body int, noRunningStatus bool) APICase {
	mk := func(payload int) APICase {
		m := make([]byte, payload+2)
		for i := range m {
			m[i] = byte(i*11) & 0x7F
		}
		m[0], m[len(m)-1] = 0xF0, 0xF7
		return APICase{Ctor: "NewSMF1", NoRunningStatus: noRunningStatus, Tracks: []TrackOps{
			{Ops: []Op{{Kind: "add", Delta: 0, Msgs: []hx.B{{0xC0, 1}}}}},
			{Ops: []Op{{Kind: "add", Delta: 1, Msgs: []hx.B{{0x90, 1, 2}}}, {Kind: "add", Delta: 2, Msgs: []hx.B{m}}, {Kind: "add", Delta: 0, Msgs: []hx.B{{0x80, 1, 0}}}}},
		}}
	}
	size := func(c APICase) int {
		var buf bytes.Buffer
		BuildLib(c).WriteTo(&buf)
		b := buf.Bytes()
		i := bytes.LastIndex(b, []byte("MTrk"))
		if i < 0 || i+8 > len(b) {
			return -1
		}
		return len(b) - i - 8
	}
	payload := body - 20
	for tries := 0; tries < 4; tries++ {
		c := mk(payload)
		got := size(c)
		if got == body {
			return c
		}
		payload += body - got
	}
	return mk(payload)
}

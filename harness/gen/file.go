// Package gen holds the rapid generators shared by several properties.
package gen

import (
	"gitlab.com/gomidi/midi/v2/zverif/ref/smfref"
	"pgregory.net/rapid"
)

// Delta draws a delta time biased to the VLQ length boundaries, at most max.
func Delta(max uint32) *rapid.Generator[uint32] {
	edges := []uint32{0, 1, 127, 128, 129, 16383, 16384, 2097151, 2097152, 0x0FFFFFFF, 0x10000000, 0xFFFFFFFE, 0xFFFFFFFF}
	var ok []uint32
	for _, e := range edges {
		if e <= max {
			ok = append(ok, e)
		}
	}
	// deltas whose encoding starts with a byte that looks like a status byte (F7, F0, FF, 90 ...):
	// the byte after an event is a delta, never a status
	statusLike := rapid.Custom(func(t *rapid.T) uint32 {
		first := uint32(rapid.SampledFrom([]byte{0xF7, 0xF0, 0xFF, 0x90, 0x80, 0xC0, 0xF8}).Draw(t, "deltaFirstByte")) & 0x7F
		groups := rapid.IntRange(1, 3).Draw(t, "deltaMoreGroups")
		v := first
		for i := 0; i < groups; i++ {
			v = v<<7 | uint32(rapid.IntRange(0, 127).Draw(t, "deltaGroup"))
		}
		if first == 0 || v > max {
			return min32(max, 15240)
		}
		return v
	})
	return rapid.OneOf(
		rapid.Uint32Range(0, 4), rapid.Uint32Range(0, 4), rapid.Uint32Range(0, min32(max, 1000)),
		rapid.SampledFrom(ok), rapid.Uint32Range(0, max), statusLike,
	)
}

func min32(a, b uint32) uint32 {
	if a < b {
		return a
	}
	return b
}

// PayloadLen draws a payload length biased to the VLQ boundaries of the length field.
func PayloadLen(max int) *rapid.Generator[int] {
	edges := []int{0, 1, 2, 3, 126, 127, 128, 129, 255, 256, 4095, 4096, 4097, 16383, 16384, 16385, 20000, 65535, 65536, 65537, 70000}
	var ok []int
	for _, e := range edges {
		if e <= max {
			ok = append(ok, e)
		}
	}
	small := max
	if small > 12 {
		small = 12
	}
	return rapid.OneOf(rapid.IntRange(0, small), rapid.IntRange(0, small), rapid.IntRange(0, small), rapid.SampledFrom(ok), rapid.IntRange(0, max))
}

// Payload draws n bytes; long payloads are a drawn head and tail around a drawn pattern so
// that a 20000 byte payload costs a handful of draws (and shrinks quickly).
func Payload(t *rapid.T, n int, label string) []byte {
	b := payload(t, n, label)
	// one payload in six starts or ends with a byte sequence that means something elsewhere in the
	// format or in text handling (a random payload would hit one of them once in 2^24 draws)
	if n >= 3 && rapid.IntRange(0, 5).Draw(t, label+"-magic?") == 0 {
		m := rapid.SampledFrom(Magic).Draw(t, label+"-magic")
		if len(m) <= n {
			if rapid.Bool().Draw(t, label+"-magicAtEnd") {
				copy(b[n-len(m):], m)
			} else {
				copy(b, m)
			}
		}
	}
	return b
}

// Magic: byte sequences with a meaning of their own (end-of-track event, chunk magic, status
// bytes, byte order marks, line ends, NUL).
var Magic = [][]byte{
	{0xFF, 0x2F, 0x00}, {0x00, 0xFF, 0x2F, 0x00}, {0xFF, 0x2F}, {0xF7}, {0xF0}, {0xFF}, {0xF7, 0x00}, {0x00, 0xF7},
	[]byte("MTrk"), []byte("MThd"), {0xEF, 0xBB, 0xBF}, {0xFE, 0xFF}, {0xFF, 0xFE}, {0x0A}, {0x0D, 0x0A}, {0x20}, {0x00}, {0x00, 0x00, 0x00},
	{0x09}, {0x20, 0x20}, {0x80}, {0x81, 0x00}, {0xFF, 0x51, 0x03}, {0x90, 0x40, 0x40},
}

func payload(t *rapid.T, n int, label string) []byte {
	if n <= 24 {
		return rapid.SliceOfN(rapid.Byte(), n, n).Draw(t, label)
	}
	head := rapid.SliceOfN(rapid.Byte(), 8, 8).Draw(t, label+"-head")
	tail := rapid.SliceOfN(rapid.Byte(), 4, 4).Draw(t, label+"-tail")
	a := rapid.Byte().Draw(t, label+"-fill")
	step := rapid.Byte().Draw(t, label+"-step")
	b := make([]byte, n)
	copy(b, head)
	for i := 8; i < n-4; i++ {
		b[i] = a
		a += step
	}
	copy(b[n-4:], tail)
	return b
}

// Division draws a raw division word: metric 1..32767 (biased) or SMPTE.
func Division() *rapid.Generator[uint16] {
	metric := rapid.OneOf(
		rapid.SampledFrom([]uint16{1, 2, 24, 96, 120, 480, 960, 15360, 32766, 32767}),
		rapid.Uint16Range(1, 32767),
	)
	smpte := rapid.Custom(func(t *rapid.T) uint16 {
		fps := rapid.SampledFrom([]uint16{24, 25, 29, 30}).Draw(t, "fps")
		sub := rapid.OneOf(rapid.SampledFrom([]uint16{4, 8, 10, 40, 80, 100, 1, 255}), rapid.Uint16Range(1, 255)).Draw(t, "subframes")
		return (256-fps)<<8 | sub
	})
	return rapid.OneOf(metric, metric, smpte)
}

// FileOpts selects which encoding freedoms the byte-level file generator uses.
type FileOpts struct {
	MaxTracks   int
	MaxEvents   int
	MaxPayload  int
	MaxAlien    int  // largest alien chunk body (0 = 300)
	Alien       bool // alien chunks before / between / after the tracks
	Pads        bool // non-minimal VLQs
	Running     bool // running status
	Escapes     bool // F7 packets and F0 without terminating F7
	UnknownMeta bool
	// LongTracks > 0: one track in LongTracks has 1000..6000 events (short payloads, many on the
	// same tick) instead of at most MaxEvents
	LongTracks int
	// ManyAlien > 0: one file in ManyAlien has a gap with 256..1200 tiny alien chunks
	ManyAlien int
}

// AllFreedoms is the C02 configuration.
var AllFreedoms = FileOpts{MaxTracks: 5, MaxEvents: 14, MaxPayload: 70000, MaxAlien: 70001, Alien: true, Pads: true, Running: true, Escapes: true, UnknownMeta: true}

var textTypes = []byte{0x01, 0x02, 0x03, 0x04, 0x05, 0x06, 0x07, 0x08, 0x09, 0x7F}

// fixedMeta: meta types with a prescribed payload length.
var fixedMeta = map[byte]int{0x00: 2, 0x20: 1, 0x21: 1, 0x51: 3, 0x54: 5, 0x58: 4, 0x59: 2}

var channelKinds = []byte{0x80, 0x90, 0xA0, 0xB0, 0xC0, 0xD0, 0xE0}

// Event draws one non-EOT event. running is the running status in effect (0 = none).
func Event(t *rapid.T, o FileOpts, running byte, maxDelta uint32) smfref.Event {
	var e smfref.Event
	e.Delta = Delta(maxDelta).Draw(t, "delta")
	if o.Pads && rapid.IntRange(0, 3).Draw(t, "padDelta?") == 0 {
		e.DeltaPad = rapid.IntRange(1, 3).Draw(t, "deltaPad")
	}
	kind := rapid.IntRange(0, 9).Draw(t, "kind")
	switch {
	case kind <= 5: // channel
		if running != 0 && rapid.IntRange(0, 2).Draw(t, "sameStatus?") > 0 {
			e.Status = running
		} else {
			e.Status = rapid.SampledFrom(channelKinds).Draw(t, "chKind") | rapid.ByteRange(0, 15).Draw(t, "channel")
		}
		n := smfref.DataLen(e.Status)
		e.Data = rapid.SliceOfN(rapid.OneOf(rapid.ByteRange(0, 127), rapid.SampledFrom([]byte{0, 1, 64, 126, 127})), n, n).Draw(t, "data")
		if o.Running && e.Status == running && rapid.IntRange(0, 3).Draw(t, "elide?") > 0 {
			e.Running = true
		}
	case kind <= 7: // meta
		e.Status = 0xFF
		mk := rapid.IntRange(0, 5).Draw(t, "metaKind")
		switch {
		case mk <= 1:
			e.MetaType = rapid.SampledFrom(textTypes).Draw(t, "textType")
			n := PayloadLen(o.MaxPayload).Draw(t, "textLen")
			e.Data = Payload(t, n, "text")
		case mk <= 3 || !o.UnknownMeta:
			types := []byte{0x00, 0x20, 0x21, 0x51, 0x54, 0x58, 0x59}
			e.MetaType = rapid.SampledFrom(types).Draw(t, "fixedType")
			n := fixedMeta[e.MetaType]
			if e.MetaType == 0x00 && rapid.IntRange(0, 4).Draw(t, "emptySeqNo?") == 0 {
				n = 0
			}
			e.Data = rapid.SliceOfN(rapid.Byte(), n, n).Draw(t, "metaData")
		default:
			// a type the library does not know (never 0x2F)
			e.MetaType = rapid.SampledFrom([]byte{0x0A, 0x0F, 0x10, 0x22, 0x2E, 0x30, 0x4B, 0x52, 0x60, 0x7E}).Draw(t, "unknownType")
			n := PayloadLen(min(o.MaxPayload, 300)).Draw(t, "unkLen")
			e.Data = Payload(t, n, "unk")
		}
	default: // sysex
		e.Status = 0xF0
		n := PayloadLen(o.MaxPayload).Draw(t, "syxLen")
		if o.Escapes && rapid.IntRange(0, 1).Draw(t, "escape?") == 1 {
			e.Status = 0xF7
			e.Data = Payload(t, n, "esc")
		} else {
			e.Data = Payload(t, n, "syx")
			if !(o.Escapes && rapid.IntRange(0, 3).Draw(t, "noF7?") == 0) {
				e.Data = append(e.Data, 0xF7)
			}
		}
	}
	if !e.IsChannel() && o.Pads && rapid.IntRange(0, 3).Draw(t, "padLen?") == 0 {
		e.LenPad = rapid.IntRange(1, 3).Draw(t, "lenPad")
	}
	return e
}

// TrackEvents draws the events of one valid track, terminated by end-of-track.
func TrackEvents(t *rapid.T, o FileOpts, maxDelta uint32) []smfref.Event {
	n := rapid.IntRange(0, o.MaxEvents).Draw(t, "nEvents")
	if o.LongTracks > 0 && rapid.IntRange(0, o.LongTracks-1).Draw(t, "longTrack?") == 0 {
		n = rapid.IntRange(1000, 6000).Draw(t, "nEventsLong")
		o.MaxPayload = min(o.MaxPayload, 40)
		maxDelta = min(maxDelta, 3)
	}
	var evs []smfref.Event
	var running byte
	for i := 0; i < n; i++ {
		e := Event(t, o, running, maxDelta)
		if e.IsChannel() {
			running = e.Status
		} else {
			running = 0
		}
		evs = append(evs, e)
	}
	eot := smfref.Event{Status: 0xFF, MetaType: 0x2F, Delta: Delta(maxDelta).Draw(t, "eotDelta")}
	if o.Pads && rapid.IntRange(0, 5).Draw(t, "padEOT?") == 0 {
		eot.DeltaPad = rapid.IntRange(1, 3).Draw(t, "eotPad")
	}
	return append(evs, eot)
}

// AlienChunk draws a chunk of a type that is neither MTrk nor MThd.
func AlienChunk(t *rapid.T, maxLen int) smfref.Chunk {
	var c smfref.Chunk
	typ := rapid.OneOf(
		rapid.SampledFrom([]string{"XFIH", "XFKM", "MTrK", "mtrk", "MThD", "    ", "RIFF", "\x00\x00\x00\x00", "\xff\xff\xff\xff", "MTr\x00"}),
		rapid.Map(rapid.SliceOfN(rapid.Byte(), 4, 4), func(b []byte) string { return string(b) }),
	).Draw(t, "alienType")
	if typ == "MTrk" || typ == "MThd" {
		typ = "MTrX"
	}
	copy(c.Type[:], typ)
	if maxLen <= 0 {
		maxLen = 300
	}
	var edges []int
	for _, e := range []int{255, 256, 257, 65535, 65536, 65537, 70001} {
		if e <= maxLen {
			edges = append(edges, e)
		}
	}
	if len(edges) == 0 {
		edges = []int{maxLen}
	}
	n := rapid.OneOf(rapid.IntRange(0, 8), rapid.IntRange(0, min(maxLen, 300)), rapid.IntRange(0, min(maxLen, 300)), rapid.SampledFrom(edges)).Draw(t, "alienLen")
	c.Data = Payload(t, n, "alien")
	return c
}

// File draws a spec-valid SMF as a grammar value.
func File(t *rapid.T, o FileOpts) smfref.File {
	var f smfref.File
	f.Format = rapid.SampledFrom([]uint16{0, 1, 1, 2}).Draw(t, "format")
	f.Division = Division().Draw(t, "division")
	ntr := 1
	if f.Format != 0 {
		ntr = rapid.IntRange(1, o.MaxTracks).Draw(t, "nTracks")
	}
	f.NTracks = uint16(ntr)
	crowdedGap := -1
	if o.Alien && o.ManyAlien > 0 && rapid.IntRange(0, o.ManyAlien-1).Draw(t, "manyAlien?") == 0 {
		crowdedGap = rapid.IntRange(0, ntr).Draw(t, "crowdedGap")
	}
	gap := 0
	alien := func(where string) {
		if !o.Alien {
			return
		}
		k := rapid.SampledFrom([]int{0, 0, 0, 1, 1, 2}).Draw(t, "alien-"+where)
		if gap == crowdedGap {
			k = rapid.SampledFrom([]int{255, 256, 257, 300, 1200}).Draw(t, "manyAlienChunks")
			for i := 0; i < k; i++ {
				f.Chunks = append(f.Chunks, AlienChunk(t, 3))
			}
			gap++
			return
		}
		gap++
		for i := 0; i < k; i++ {
			f.Chunks = append(f.Chunks, AlienChunk(t, o.MaxAlien))
		}
	}
	for i := 0; i < ntr; i++ {
		alien("before")
		f.Chunks = append(f.Chunks, smfref.Chunk{IsTrack: true, Type: [4]byte{'M', 'T', 'r', 'k'}, Events: TrackEvents(t, o, 0x0FFFFFFF)})
	}
	alien("after")
	// the usual layout of multi-track files: every track repeats the same tempo / signature event at
	// tick 0 (equal payloads at equal ticks in different tracks)
	if ntr >= 2 && rapid.IntRange(0, 5).Draw(t, "sameMetaInEveryTrack?") == 0 {
		e := smfref.Event{Status: 0xFF, MetaType: 0x51, Data: []byte{0x07, 0xA1, 0x20}}
		if rapid.Bool().Draw(t, "signatureInstead") {
			e = smfref.Event{Status: 0xFF, MetaType: 0x58, Data: []byte{6, 3, 24, 8}}
		}
		for i := range f.Chunks {
			if f.Chunks[i].IsTrack {
				f.Chunks[i].Events = append([]smfref.Event{e, e}, f.Chunks[i].Events...)
			}
		}
	}
	return f
}

// FileClasses names the encoding freedoms a file actually uses (for the class histogram).
func FileClasses(f smfref.File) []string {
	set := map[string]bool{}
	for _, c := range f.Chunks {
		if !c.IsTrack {
			set["alien-chunk"] = true
			continue
		}
		for _, e := range c.Events {
			if e.Running {
				set["running-status"] = true
				if smfref.DataLen(e.Status) == 1 {
					set["running-1-data-byte"] = true
				}
			}
			if e.DeltaPad > 0 && len(smfref.VLQ(e.Delta)) < 4 || e.LenPad > 0 && len(smfref.VLQ(uint32(len(e.Data)))) < 4 {
				set["padded-vlq"] = true
			}
			if e.Status == 0xF7 {
				set["f7-packet"] = true
			}
			if e.Status == 0xF0 && (len(e.Data) == 0 || e.Data[len(e.Data)-1] != 0xF7) {
				set["f0-without-f7"] = true
			}
			if e.IsMeta() && !e.IsEOT() {
				if _, fixed := fixedMeta[e.MetaType]; !fixed {
					known := false
					for _, k := range textTypes {
						known = known || k == e.MetaType
					}
					if !known {
						set["unknown-meta"] = true
					}
				}
			}
			if !e.IsChannel() && len(e.Data) >= 128 {
				set["payload>=128"] = true
			}
		}
	}
	if f.Division&0x8000 != 0 {
		set["smpte"] = true
	}
	var out []string
	for k := range set {
		out = append(out, k)
	}
	return out
}

// Package c20 decides property C20: sequencer export lays bars end to end and places
// events on the 32nd-note grid.
package c20

import (
	"fmt"
	"gitlab.com/gomidi/midi/v2/zverif/noise"
	"sort"
	"testing"

	"gitlab.com/gomidi/midi/v2"
	"gitlab.com/gomidi/midi/v2/sequencer"
	"gitlab.com/gomidi/midi/v2/smf"
	"gitlab.com/gomidi/midi/v2/zverif/ev"
	"pgregory.net/rapid"
)

func TestMain(m *testing.M) { ev.Main(m) }

type EvCase struct {
	Track    int
	Pos, Dur int
	Msg      ev.Hex
}

type BarCase struct {
	Num, Den int // 0/0 = inherit the previous signature (4/4 at the start)
	Events   []EvCase
}

type Case struct {
	Res  uint16
	Bars []BarCase
	// ExportAfter > 0: the song is exported once after that many bars have been added, then the
	// remaining bars are added and the same song is exported again (export - edit - export)
	ExportAfter int `json:",omitempty"`
	// edits made right after that intermediate export, before the remaining bars are added:
	NewRes uint16   `json:",omitempty"` // a new resolution (Song.Ticks), 0 = unchanged
	Resig  [][3]int `json:",omitempty"` // [bar index, numerator, denominator]: Bars()[i].TimeSig replaced
}

// effectiveSigs simulates AddBar (a bar without signature takes over the signature the last
// bar has at that moment) and the edits, and returns the final signature of every bar.
func effectiveSigs(c Case) [][2]int {
	var eff [][2]int
	for i, b := range c.Bars {
		if c.ExportAfter > 0 && i == c.ExportAfter {
			for _, r := range c.Resig {
				if r[0] >= 0 && r[0] < len(eff) {
					eff[r[0]] = [2]int{r[1], r[2]}
				}
			}
		}
		sig := [2]int{b.Num, b.Den}
		if b.Num == 0 && b.Den == 0 {
			sig = [2]int{4, 4}
			if len(eff) > 0 {
				sig = eff[len(eff)-1]
			}
		}
		eff = append(eff, sig)
	}
	if c.ExportAfter > 0 && c.ExportAfter >= len(c.Bars) {
		for _, r := range c.Resig {
			if r[0] >= 0 && r[0] < len(eff) {
				eff[r[0]] = [2]int{r[1], r[2]}
			}
		}
	}
	return eff
}

type item struct {
	tick int64
	msg  string
}

func sorted(m []item) []item {
	sort.Slice(m, func(i, j int) bool {
		if m[i].tick != m[j].tick {
			return m[i].tick < m[j].tick
		}
		return m[i].msg < m[j].msg
	})
	return m
}

func diffItems(got, want []item) string {
	got, want = sorted(got), sorted(want)
	for i := 0; i < len(got) || i < len(want); i++ {
		switch {
		case i >= len(got):
			return fmt.Sprintf("missing % X at tick %d (%d events, want %d)", want[i].msg, want[i].tick, len(got), len(want))
		case i >= len(want):
			return fmt.Sprintf("unexpected % X at tick %d (%d events, want %d)", got[i].msg, got[i].tick, len(got), len(want))
		case got[i] != want[i]:
			return fmt.Sprintf("got % X at tick %d, want % X at tick %d", got[i].msg, got[i].tick, want[i].msg, want[i].tick)
		}
	}
	return ""
}

func buildSong(c Case) *sequencer.Song {
	s := sequencer.New()
	s.Ticks = smf.MetricTicks(c.Res)
	s.Title, s.Composer = "t", "c"
	exportAndEdit := func() {
		_ = s.ToSMF0()
		_ = s.ToSMF1()
		if c.NewRes != 0 {
			s.Ticks = smf.MetricTicks(c.NewRes)
		}
		for _, r := range c.Resig {
			if r[0] >= 0 && r[0] < len(s.Bars()) {
				s.Bars()[r[0]].TimeSig = [2]uint8{uint8(r[1]), uint8(r[2])}
			}
		}
	}
	defer func() {
		if c.ExportAfter > 0 && c.ExportAfter >= len(c.Bars) {
			exportAndEdit()
		}
	}()
	for i, b := range c.Bars {
		if c.ExportAfter > 0 && i == c.ExportAfter {
			exportAndEdit()
		}
		bar := sequencer.Bar{TimeSig: [2]uint8{uint8(b.Num), uint8(b.Den)}}
		for _, e := range b.Events {
			bar.Events = append(bar.Events, &sequencer.Event{TrackNo: e.Track, Pos: uint8(e.Pos), Duration: uint8(e.Dur), Message: smf.Message(append([]byte{}, e.Msg...))})
		}
		s.AddBar(bar)
		if i < 3 {
			noise.Between() // other songs are created and extended while this one is being built
		}
	}
	return s
}

// collect returns per track the (tick, message) items of channel/sysex messages and
// time-signature events, the tick of the end-of-track, and a description of format errors.
func collect(f smf.SMF) (tracks [][]item, eots []int64, bad string) {
	for ti, tr := range f.Tracks {
		var abs int64
		var items []item
		eot := int64(-1)
		for i, e := range tr {
			if e.Delta >= 1<<31 {
				return nil, nil, fmt.Sprintf("track %d event %d has delta %d (wrapped negative difference)", ti, i, e.Delta)
			}
			abs += int64(e.Delta)
			m := e.Message
			switch {
			case m.Is(smf.MetaEndOfTrackMsg):
				if i != len(tr)-1 {
					return nil, nil, fmt.Sprintf("track %d: end-of-track in the middle", ti)
				}
				eot = abs
			case len(m) == 7 && m[0] == 0xFF && m[1] == 0x58 && m[2] == 0x04:
				// a time signature counts by numerator/denominator; the metronome fields are not
				// part of the statement
				items = append(items, item{abs, fmt.Sprintf("time-signature %d/%d", m[3], 1<<m[4])})
			case !m.IsMeta():
				items = append(items, item{abs, string(m)})
			}
		}
		if eot < 0 {
			return nil, nil, fmt.Sprintf("track %d is not terminated", ti)
		}
		tracks = append(tracks, items)
		eots = append(eots, eot)
	}
	return
}

func run(c Case) (res ev.Result) {
	if len(c.Bars) == 0 || c.Res == 0 || c.Res%8 != 0 {
		res.Skip = true
		return
	}
	// ---- the independent model
	finalRes := c.Res
	if c.ExportAfter > 0 && c.NewRes != 0 {
		finalRes = c.NewRes
	}
	if finalRes%8 != 0 {
		res.Skip = true
		return
	}
	t32 := int64(finalRes) / 8
	eff := effectiveSigs(c)
	num, den := 4, 4
	var start int64
	var want []item // everything
	wantByTrack := map[int][]item{}
	curSig := [2]int{4, 4}
	bigBar, afterBig := false, false
	type note struct {
		end int64
	}
	var ends []int64
	for bi, b := range c.Bars {
		num, den = eff[bi][0], eff[bi][1]
		len32 := 0
		if den != 0 {
			len32 = num * 32 / den
		}
		if den == 0 || num == 0 || num*32%den != 0 || len32 > 255 || len32 == 0 {
			res.Skip = true // outside the stated domain
			return
		}
		if [2]int{num, den} != curSig {
			curSig = [2]int{num, den}
			want = append(want, item{start, fmt.Sprintf("time-signature %d/%d", num, den)})
		}
		for _, e := range b.Events {
			if e.Pos >= len32 {
				res.Skip = true
				return
			}
			tick := start + int64(e.Pos)*t32
			it := item{tick, string(e.Msg)}
			want = append(want, it)
			wantByTrack[e.Track] = append(wantByTrack[e.Track], it)
			if len(e.Msg) == 3 && e.Msg[0]&0xF0 == 0x90 && e.Msg[2] > 0 {
				if e.Dur < 1 {
					res.Skip = true
					return
				}
				end := start + int64(e.Pos+e.Dur)*t32
				off := item{end, string(midiNoteOff(e.Msg[0]&0x0F, e.Msg[1]))}
				want = append(want, off)
				wantByTrack[e.Track] = append(wantByTrack[e.Track], off)
				ends = append(ends, end)
			} else if e.Dur != 0 {
				res.Skip = true
				return
			}
			if bigBar {
				afterBig = true
			}
		}
		if afterBig == false && bigBar && len(b.Events) > 0 {
			afterBig = true
		}
		if num >= 8 {
			bigBar = true
		}
		start += int64(len32) * t32
	}
	songEnd := start
	for _, e := range ends {
		if e > songEnd {
			res.Skip = true // a note must end within the song
			return
		}
	}
	res.Nontrivial = len(c.Bars) >= 2 && afterBig
	if bigBar {
		res.Classes = append(res.Classes, "bar-with-numerator>=8")
	}
	res.Classes = append(res.Classes, fmt.Sprintf("bars=%d", min(len(c.Bars), 6)))
	if c.ExportAfter > 0 {
		res.Classes = append(res.Classes, "export-edit-export")
	}

	// ---- the library
	var f0, f1 smf.SMF
	if p := ev.TryTimeout(ev.Watchdog, func() {
		// both songs exist before either is exported
		s0, s1 := buildSong(c), buildSong(c)
		noise.Between()
		f0, f1 = s0.ToSMF0(), s1.ToSMF1()
	}); p != "" {
		res.Violation = "export: " + p
		return
	}
	if d, ok := f0.TimeFormat.(smf.MetricTicks); !ok || uint16(d) != finalRes {
		res.Violation = fmt.Sprintf("ToSMF0 time format %v, song resolution %d", f0.TimeFormat, finalRes)
		return
	}
	t0, e0, bad := collect(f0)
	if bad != "" {
		res.Violation = "ToSMF0: " + bad
		return
	}
	if len(t0) != 1 {
		res.Violation = fmt.Sprintf("ToSMF0 has %d tracks", len(t0))
		return
	}
	if d := diffItems(t0[0], want); d != "" {
		res.Violation = "ToSMF0: " + d
		return
	}
	if e0[0] != songEnd {
		res.Violation = fmt.Sprintf("ToSMF0: track ends at tick %d, the last bar ends at tick %d", e0[0], songEnd)
		return
	}
	t1, e1, bad := collect(f1)
	if bad != "" {
		res.Violation = "ToSMF1: " + bad
		return
	}
	var union []item
	for _, tr := range t1 {
		union = append(union, tr...)
	}
	if d := diffItems(union, want); d != "" {
		res.Violation = "ToSMF1 (all tracks together): " + d
		return
	}
	if d := diffItems(union, t0[0]); d != "" {
		res.Violation = "single-track and multi-track export differ: " + d
		return
	}
	for ti, e := range e1 {
		if e != songEnd {
			res.Violation = fmt.Sprintf("ToSMF1: track %d ends at tick %d, the last bar ends at tick %d", ti, e, songEnd)
			return
		}
	}
	// per track assignment: track 0 = bar line, then one track per used TrackNo ascending
	var nos []int
	for no := range wantByTrack {
		nos = append(nos, no)
	}
	sort.Ints(nos)
	if len(t1) != 1+len(nos) {
		res.Violation = fmt.Sprintf("ToSMF1 has %d tracks, want 1 + %d used event tracks", len(t1), len(nos))
		return
	}
	for i, no := range nos {
		if d := diffItems(t1[1+i], wantByTrack[no]); d != "" {
			res.Violation = fmt.Sprintf("ToSMF1 track %d (events of TrackNo %d): %s", 1+i, no, d)
			return
		}
	}
	return
}

func midiNoteOff(ch, key byte) []byte { return midi.NoteOff(ch, key) }

func genCase(t *rapid.T) Case {
	var c Case
	c.Res = uint16(8 * rapid.OneOf(rapid.SampledFrom([]int{3, 12, 60, 120, 1920}), rapid.IntRange(3, 1920)).Draw(t, "res/8"))
	nb := rapid.OneOf(rapid.IntRange(1, 12), rapid.IntRange(1, 12), rapid.IntRange(1, 12), rapid.IntRange(1, 12), rapid.IntRange(100, 400)).Draw(t, "nBars")
	// one song in 500 is longer than 2^32 ticks: thousands of long bars at the finest resolutions
	veryLong := rapid.IntRange(0, 499).Draw(t, "longerThan2^32Ticks?") == 0
	if veryLong {
		c.Res = uint16(8 * rapid.SampledFrom([]int{4095, 4094, 4000}).Draw(t, "fineRes/8"))
		nb = rapid.IntRange(5400, 7000).Draw(t, "nBarsVeryLong")
	}
	type sig struct{ n, d int }
	favourites := []sig{{4, 4}, {3, 4}, {6, 8}, {9, 8}, {12, 8}, {7, 4}, {15, 16}, {5, 4}, {2, 2}, {24, 32}, {7, 1}, {8, 4}, {16, 16}}
	num, den := 4, 4
	var lens []int
	for i := 0; i < nb; i++ {
		var b BarCase
		if veryLong {
			// the signature changes every 1000 bars, so that the bar track has an event at least
			// every 2^32 ticks (a delta is a uint32)
			if i%1000 == 0 {
				b.Num, b.Den = 7-(i/1000)%2, 1
				num, den = b.Num, b.Den
			}
		} else if i == 0 || rapid.IntRange(0, 2).Draw(t, "newSignature?") == 0 {
			var s sig
			if rapid.Bool().Draw(t, "favourite") {
				s = rapid.SampledFrom(favourites).Draw(t, "sig")
			} else {
				s.d = rapid.SampledFrom([]int{1, 2, 4, 8, 16, 32}).Draw(t, "den")
				maxNum := min(24, 255*s.d/32)
				s.n = rapid.IntRange(1, maxNum).Draw(t, "num")
			}
			b.Num, b.Den = s.n, s.d
			num, den = s.n, s.d
		}
		lens = append(lens, num*32/den)
		c.Bars = append(c.Bars, b)
	}
	// optionally an intermediate export followed by edits (new resolution, replaced signatures of
	// bars that exist already); events are then placed using the FINAL bar lengths
	if !veryLong && rapid.IntRange(0, 3).Draw(t, "exportInBetween?") == 0 {
		c.ExportAfter = rapid.IntRange(1, nb).Draw(t, "exportAfter") // == nb: all bars are there, export, edit, export
		if rapid.Bool().Draw(t, "newResolution?") {
			c.NewRes = uint16(8 * rapid.OneOf(rapid.SampledFrom([]int{3, 12, 60, 120, 1920}), rapid.IntRange(3, 1920)).Draw(t, "newRes/8"))
		}
		if rapid.Bool().Draw(t, "resign?") {
			k := rapid.IntRange(1, 2).Draw(t, "nResig")
			for i := 0; i < k; i++ {
				s := rapid.SampledFrom(favourites).Draw(t, "newSig")
				c.Resig = append(c.Resig, [3]int{rapid.IntRange(0, c.ExportAfter-1).Draw(t, "resigBar"), s.n, s.d})
			}
		}
		for i, e := range effectiveSigs(c) {
			lens[i] = e[0] * 32 / e[1]
		}
	}
	total := 0
	for _, l := range lens {
		total += l
	}
	done := 0
	for i := range c.Bars {
		if veryLong && i > 2 && i < len(c.Bars)-4 && i%1000 != 0 {
			done += lens[i]
			continue // events at the start, every 1000 bars, and in the last bars only
		}
		if veryLong {
			// every used track gets an event here (gaps within a track stay below 2^32 ticks)
			for tr := 0; tr < 3; tr++ {
				c.Bars[i].Events = append(c.Bars[i].Events, EvCase{Track: tr, Pos: rapid.IntRange(0, lens[i]-1).Draw(t, "forcedPos"),
					Msg: ev.Hex(midi.ControlChange(byte(tr), byte(i%128), byte(tr+1)))})
			}
		}
		ne := rapid.IntRange(0, 5).Draw(t, "nEvents")
		for j := 0; j < ne; j++ {
			e := EvCase{Track: rapid.IntRange(0, 7).Draw(t, "track")}
			if veryLong {
				e.Track %= 3
			}
			e.Pos = rapid.IntRange(0, lens[i]-1).Draw(t, "pos")
			ch := byte(rapid.IntRange(0, 15).Draw(t, "ch"))
			switch rapid.IntRange(0, 8).Draw(t, "msg") {
			case 6:
				e.Msg = ev.Hex(midi.Pitchbend(ch, int16(rapid.IntRange(-8192, 8191).Draw(t, "bend"))))
			case 7:
				e.Msg = ev.Hex(midi.AfterTouch(ch, byte(rapid.IntRange(0, 127).Draw(t, "pressure"))))
			case 8:
				e.Msg = ev.Hex(midi.PolyAfterTouch(ch, byte(rapid.IntRange(0, 127).Draw(t, "key")), byte(rapid.IntRange(0, 127).Draw(t, "pressure"))))
			case 0:
				e.Msg = ev.Hex(midi.ControlChange(ch, byte(rapid.IntRange(0, 127).Draw(t, "cc")), 64))
			case 1:
				e.Msg = ev.Hex(midi.SysEx([]byte{0x7D, byte(rapid.IntRange(0, 127).Draw(t, "sx"))}))
			case 2:
				e.Msg = ev.Hex(midi.ProgramChange(ch, byte(rapid.IntRange(0, 127).Draw(t, "prog"))))
			default:
				e.Msg = ev.Hex(midi.NoteOn(ch, byte(rapid.IntRange(0, 127).Draw(t, "key")), byte(rapid.IntRange(1, 127).Draw(t, "vel"))))
				room := total - done - e.Pos
				e.Dur = rapid.IntRange(1, min(255, room)).Draw(t, "dur")
				// one note in three is struck again (same track, channel and key) on the very
				// 32nd where it ends, if that is still inside this bar
				if e.Pos+e.Dur < lens[i] && rapid.IntRange(0, 2).Draw(t, "restrike?") == 0 {
					c.Bars[i].Events = append(c.Bars[i].Events, e)
					again := e
					again.Pos = e.Pos + e.Dur
					again.Dur = rapid.IntRange(1, min(255, total-done-again.Pos)).Draw(t, "durAgain")
					e = again
				}
			}
			c.Bars[i].Events = append(c.Bars[i].Events, e)
		}
		done += lens[i]
	}
	return c
}

var songs = ev.NewCheck("C20", "songs",
	"rapid: songs of 1..12 bars (one song in five: 100..400 bars; one in 500: 5400..7000 bars of 7/1 and 6/1 at resolution 32000..32760, i.e. longer than 2^32 ticks, with a signature change and events on three tracks every 1000 bars so that no delta exceeds a uint32); time signatures numerator 1..24 over denominators 1,2,4,8,16,32 with bars of at most 255 thirty-seconds (biased to 6/8, 9/8, 12/8, 7/4, 15/16), bars inheriting the previous signature; resolutions divisible by 8 (24..15360); up to 8 tracks; per bar 0..5 events (NoteOn velocity > 0 with a duration ending within the song, one note in three struck again with the same track, channel and key on the very 32nd where it ends, control/program change, pitch bend, channel and key pressure, sysex) at any in-bar position; in one case of four the song is exported once in the middle of being built, then possibly edited (new resolution, time signatures of existing bars replaced through Bars()), the remaining bars are added and it is exported again (export - edit - export); oracle = independent bar/grid model: bar start = sum of previous num*32/den * res/8, event at start+pos*t32, NoteOff at start+(pos+dur)*t32, time-signature event at every change relative to 4/4, every track ends at the song end, no wrapped delta; ToSMF0 and the union of ToSMF1 must equal the model (hence each other) as multisets of (tick, bytes), ToSMF1 assigns events to tracks by TrackNo; non-trivial = >= 2 bars, a bar with numerator >= 8 and an event in or after it in a later bar; distinct by case hash",
	genCase, run)

func TestPropSongs(t *testing.T) { songs.Rapid(t, 3000, 60000) }

func TestReplay(t *testing.T) { ev.ReplayAll(t) }

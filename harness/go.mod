module gitlab.com/gomidi/midi/v2/zverif

go 1.23

toolchain go1.23.5

require (
	gitlab.com/gomidi/midi/v2 v2.0.0
	pgregory.net/rapid v1.3.0
)

replace gitlab.com/gomidi/midi/v2 => /repo/v2

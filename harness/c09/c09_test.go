// Package c09 decides property C09: SMF reading does not depend on how the source
// delivers its bytes (differential against reading the same bytes from memory).
package c09

import (
	"bufio"
	"bytes"
	"encoding/binary"
	"fmt"
	"io"
	"os"
	"path/filepath"
	"sort"
	"syscall"
	"testing"

	"gitlab.com/gomidi/midi/v2/smf"
	"gitlab.com/gomidi/midi/v2/zverif/adapt"
	"gitlab.com/gomidi/midi/v2/zverif/ev"
	"gitlab.com/gomidi/midi/v2/zverif/faultio"
	"gitlab.com/gomidi/midi/v2/zverif/gen"
	"gitlab.com/gomidi/midi/v2/zverif/ref/smfref"
	"pgregory.net/rapid"
)

func TestMain(m *testing.M) { ev.Main(m) }

type Case struct {
	Grammar  *smfref.File `json:",omitempty"` // byte-level grammar file, or
	API      *gen.APICase `json:",omitempty"` // a file produced by the library's writer
	TruncAt  int          // -1: whole file, else only the first TruncAt bytes
	Random   [][]int      // random partitions (sorted cut offsets)
	OnlyCuts []int        `json:",omitempty"` // replay of one fragmentation only
	OnlyEOF  bool         `json:",omitempty"`
	// HeaderExtra > 0: the header chunk declares 6+HeaderExtra bytes and carries that many extra
	// bytes (legal per the format; whatever the library makes of it, it must not depend on the
	// fragmentation)
	HeaderExtra int `json:",omitempty"`
	// AllTruncations: additionally every truncation of the file is read from memory and in
	// pieces (single read and byte-wise, each with the last bytes delivered together with EOF)
	AllTruncations bool `json:",omitempty"`
}

type outcome struct {
	kind   string // "ok", "missing", "error", "panic"
	detail string
	format uint16
	div    uint16
	tracks [][]smfref.NEvent
	tempo  string
}

type nopLogger struct{}

func (nopLogger) Printf(format string, vals ...interface{}) {}

func readAll(r io.Reader) (o outcome) { return readAllOpt(r, 0) }

// readAllOpt reads through one of the entry points that take an io.Reader: mode 0 = ReadFrom,
// 1 = ReadFrom with the (behaviour-neutral) Log option, 2 = ReadTracksFrom(...).SMF().
func readAllOpt(r io.Reader, mode int) (o outcome) {
	var s *smf.SMF
	var err error
	if p := ev.TryTimeout(ev.Watchdog, func() {
		switch mode {
		case 1:
			s, err = smf.ReadFrom(r, smf.Log(nopLogger{}))
		case 2:
			trd := smf.ReadTracksFrom(r)
			if err = trd.Error(); err == nil {
				s = trd.SMF()
			}
		default:
			s, err = smf.ReadFrom(r)
		}
	}); p != "" {
		return outcome{kind: "panic", detail: p}
	}
	switch {
	case err == smf.ErrMissing:
		return outcome{kind: "missing"}
	case err != nil:
		return outcome{kind: "error", detail: err.Error()}
	case s == nil:
		return outcome{kind: "panic", detail: "nil, nil"}
	}
	o.kind = "ok"
	o.format = s.Format()
	o.div, _ = adapt.Division(s.TimeFormat)
	o.tracks = adapt.Tracks(s)
	for _, tc := range s.TempoChanges() {
		o.tempo += fmt.Sprintf("%d:%v:%d;", tc.AbsTicks, tc.BPM, tc.AbsTimeMicroSec)
	}
	return
}

func diff(got, want outcome) string {
	if got.kind != want.kind {
		return fmt.Sprintf("fragmented read: %s %s; from memory: %s %s", got.kind, got.detail, want.kind, want.detail)
	}
	if got.kind != "ok" {
		return ""
	}
	if got.format != want.format || got.div != want.div {
		return fmt.Sprintf("header differs: format %d/%d division %04X/%04X", got.format, want.format, got.div, want.div)
	}
	if d := adapt.DiffTracks(got.tracks, want.tracks); d != "" {
		return "fragmented vs memory: " + d
	}
	if got.tempo != want.tempo {
		return fmt.Sprintf("tempo map differs: %s vs %s", got.tempo, want.tempo)
	}
	return ""
}

// viaNamedPipe reads the bytes with smf.ReadFile from a FIFO that a goroutine feeds.
func viaNamedPipe(b []byte, want outcome) string {
	dir, err := os.MkdirTemp("", "verif-c09-")
	if err != nil {
		return ""
	}
	defer os.RemoveAll(dir)
	path := filepath.Join(dir, "pipe.mid")
	if err := syscall.Mkfifo(path, 0o600); err != nil {
		return ""
	}
	go func() {
		w, err := os.OpenFile(path, os.O_WRONLY, 0)
		if err != nil {
			return
		}
		half := len(b) / 2
		w.Write(b[:half])
		w.Write(b[half:])
		w.Close()
	}()
	var s *smf.SMF
	var rerr error
	if p := ev.TryTimeout(ev.Watchdog, func() { s, rerr = smf.ReadFile(path) }); p != "" {
		// unblock the writer if ReadFile never opened the pipe
		if f, err := os.OpenFile(path, os.O_RDONLY|syscall.O_NONBLOCK, 0); err == nil {
			f.Close()
		}
		return "smf.ReadFile on a named pipe: " + p
	}
	got := outcome{kind: "ok"}
	switch {
	case rerr == smf.ErrMissing:
		got.kind = "missing"
	case rerr != nil:
		got = outcome{kind: "error", detail: rerr.Error()}
	case s == nil:
		got = outcome{kind: "panic", detail: "nil, nil"}
	default:
		got.format = s.Format()
		got.div, _ = adapt.Division(s.TimeFormat)
		got.tracks = adapt.Tracks(s)
		for _, tc := range s.TempoChanges() {
			got.tempo += fmt.Sprintf("%d:%v:%d;", tc.AbsTicks, tc.BPM, tc.AbsTimeMicroSec)
		}
	}
	// ReadFile wraps errors of its own; only success / failure and the value are compared
	if (got.kind == "ok") != (want.kind == "ok") {
		return fmt.Sprintf("smf.ReadFile on a named pipe (%d bytes): %s %s; ReadFrom from memory: %s %s", len(b), got.kind, got.detail, want.kind, want.detail)
	}
	if got.kind == "ok" {
		if d := diff(got, want); d != "" {
			return "smf.ReadFile on a named pipe: " + d
		}
	}
	return ""
}

var counters = ev.New("C09", "fragmentations",
	"every (file, fragmentation) pair evaluated by the check 'files': each single split point, one-byte reads, random partitions, each also with the last bytes returned together with io.EOF; non-trivial = some read boundary falls strictly inside a multi-byte fixed-length field or payload (chunk magic, length, header word, meta/sysex/alien payload) as located by the reference decoder; fragmentations of one file are distinct by construction")

func inside(ranges [][2]int, cuts []int) bool {
	for _, c := range cuts {
		i := sort.Search(len(ranges), func(i int) bool { return ranges[i][1] > c })
		if i < len(ranges) && ranges[i][0] < c && c < ranges[i][1] {
			return true
		}
	}
	return false
}

func run(c Case) (res ev.Result) {
	var full []byte
	switch {
	case c.Grammar != nil:
		full = smfref.Build(*c.Grammar)
		res.Classes = append(res.Classes, "grammar-file")
	case c.API != nil && len(c.API.Tracks) > 0:
		var buf bytes.Buffer
		var err error
		if p := ev.Try(func() { _, err = gen.BuildLib(*c.API).WriteTo(&buf) }); p != "" || err != nil {
			res.Violation = fmt.Sprintf("WriteTo: %v %s", err, p)
			return
		}
		full = buf.Bytes()
		res.Classes = append(res.Classes, "written-file")
	default:
		res.Skip = true
		return
	}
	if c.HeaderExtra > 0 && len(full) >= 14 {
		ext := make([]byte, c.HeaderExtra)
		for i := range ext {
			ext[i] = byte(0x11 * (i + 1))
		}
		full = append(append(append([]byte{}, full[:14]...), ext...), full[14:]...)
		binary.BigEndian.PutUint32(full[4:], uint32(6+c.HeaderExtra))
		res.Classes = append(res.Classes, "extended-header")
	}
	dec, _ := smfref.Decode(full)
	ranges := dec.Ranges
	sort.Slice(ranges, func(i, j int) bool { return ranges[i][0] < ranges[j][0] })
	b := full
	if c.TruncAt >= 0 && c.TruncAt < len(full) {
		b = full[:c.TruncAt]
		res.Classes = append(res.Classes, "truncated")
	}
	res.Key = append([]byte(fmt.Sprint(c.TruncAt, ":")), full...)
	want := readAll(bytes.NewReader(b))
	if want.kind == "panic" {
		// a crash on the memory reader is C05's business; nothing to compare against
		res.Classes = append(res.Classes, "memory-read-panics")
		res.Violation = "reading from memory: " + want.detail
		return
	}
	res.Classes = append(res.Classes, "memory:"+want.kind)
	// the fragmented reads rotate over the entry points ReadFrom, ReadFrom with a logger attached
	// (smf.Log) and ReadTracksFrom; each is compared with the read from memory made the same way
	wants := [3]outcome{want, readAllOpt(bytes.NewReader(b), 1), readAllOpt(bytes.NewReader(b), 2)}
	var n, nt int64
	defer func() { counters.AddEnum(n, nt, "") }()
	try := func(what string, cuts []int, eofWithData bool, r io.Reader) string {
		n++
		if cuts == nil || inside(ranges, cuts) {
			nt++
			res.Nontrivial = true
		}
		mode := int(n % 3)
		if d := diff(readAllOpt(r, mode), wants[mode]); d != "" {
			return fmt.Sprintf("%s (file of %d bytes, eof-with-data=%v, entry point %s): %s", what, len(b), eofWithData, [3]string{"ReadFrom", "ReadFrom+Log", "ReadTracksFrom"}[mode], d)
		}
		return ""
	}
	if c.OnlyCuts != nil {
		res.Violation = try(fmt.Sprintf("cuts %v", c.OnlyCuts), c.OnlyCuts, c.OnlyEOF, &faultio.FragReader{Data: b, Cuts: c.OnlyCuts, EOFWithData: c.OnlyEOF})
		return
	}
	if s := try("one byte per read", nil, false, &faultio.OneByteReader{Data: b}); s != "" {
		res.Violation = s
		return
	}
	// sources with optional interfaces a reader might sniff for
	if s := try("bufio.Reader (io.ByteReader)", []int{}, false, bufio.NewReaderSize(&faultio.FragReader{Data: b, Cuts: []int{len(b) / 2}}, 16)); s != "" {
		res.Violation = s
		return
	}
	if s := try("reader with a failing Seek method (pipe)", []int{}, false, &faultio.FailingSeeker{R: bytes.NewReader(b)}); s != "" {
		res.Violation = s
		return
	}
	if pr, pw, err := os.Pipe(); err == nil {
		go func() { pw.Write(b); pw.Close() }()
		s := try("os.Pipe read end (*os.File)", []int{}, false, pr)
		pr.Close()
		if s != "" {
			res.Violation = s
			return
		}
	}
	// the file-based entry point on a path that is not a regular file: a named pipe (size unknown
	// up front, data arrives in pieces)
	if s := viaNamedPipe(b, want); s != "" {
		n++
		res.Violation = s
		return
	}
	for _, eof := range []bool{false, true} {
		if s := try("single read", []int{}, eof, &faultio.FragReader{Data: b, EOFWithData: eof}); s != "" {
			res.Violation = s
			return
		}
		for _, sp := range splitPoints(len(b), ranges) {
			if s := try(fmt.Sprintf("split at %d", sp), []int{sp}, eof, &faultio.FragReader{Data: b, Cuts: []int{sp}, EOFWithData: eof}); s != "" {
				res.Violation = s
				return
			}
		}
		for _, cuts := range c.Random {
			if s := try(fmt.Sprintf("cuts %v", cuts), cuts, eof, &faultio.FragReader{Data: b, Cuts: cuts, EOFWithData: eof}); s != "" {
				res.Violation = s
				return
			}
		}
	}
	if c.AllTruncations {
		res.Classes = append(res.Classes, "all-truncations")
		for _, cut := range splitPoints(len(full)+1, ranges) {
			tb := full[:cut]
			twant := readAll(bytes.NewReader(tb))
			if twant.kind == "panic" {
				res.Violation = fmt.Sprintf("truncated to %d bytes, reading from memory: %s", cut, twant.detail)
				return
			}
			for _, r := range []struct {
				what string
				rd   io.Reader
			}{
				{"single read delivered together with EOF", &faultio.FragReader{Data: tb, EOFWithData: true}},
				{"one byte per read", &faultio.OneByteReader{Data: tb}},
				{"last byte delivered together with EOF", &faultio.FragReader{Data: tb, Cuts: []int{cut - 1}, EOFWithData: true}},
				{"two halves", &faultio.FragReader{Data: tb, Cuts: []int{cut / 2}}},
			} {
				n++
				nt++
				if d := diff(readAll(r.rd), twant); d != "" {
					res.Violation = fmt.Sprintf("file truncated to %d of %d bytes, %s: %s", cut, len(full), r.what, d)
					return
				}
			}
		}
	}
	return
}

// splitPoints returns every offset 1..n-1 for small inputs; for large ones the offsets
// around every field boundary, the first and last 64 and a stride over the rest.
func splitPoints(n int, ranges [][2]int) []int {
	if n <= 1500 {
		out := make([]int, 0, n)
		for i := 1; i < n; i++ {
			out = append(out, i)
		}
		return out
	}
	set := map[int]bool{}
	add := func(x int) {
		if x >= 1 && x < n {
			set[x] = true
		}
	}
	for i := 1; i < 64; i++ {
		add(i)
		add(n - i)
	}
	for _, r := range ranges {
		for d := -2; d <= 2; d++ {
			add(r[0] + d)
			add(r[1] + d)
		}
		add((r[0] + r[1]) / 2)
	}
	for _, edge := range []int{512, 4096, 8192, 32768, 65536} {
		for d := -1; d <= 1; d++ {
			add(edge + d)
		}
	}
	for i := 1; i < n; i += n/200 + 1 {
		add(i)
	}
	out := make([]int, 0, len(set))
	for x := range set {
		out = append(out, x)
	}
	sort.Ints(out)
	return out
}

func genCase(t *rapid.T) Case {
	c := Case{TruncAt: -1}
	var n int
	if rapid.Bool().Draw(t, "grammar?") {
		o := gen.AllFreedoms
		o.MaxAlien = 300
		o.MaxPayload = 200
		if rapid.IntRange(0, 9).Draw(t, "bigPayloads?") == 0 {
			o.MaxPayload = 70000
		}
		o.MaxEvents = 8
		o.MaxTracks = 3
		f := gen.File(t, o)
		c.Grammar = &f
		n = len(smfref.Build(f))
	} else {
		mp := 200
		if rapid.IntRange(0, 9).Draw(t, "bigPayloads?") == 0 {
			mp = 70000
		}
		a := gen.API(t, gen.APIOpts{MaxTracks: 3, MaxOps: 6, MaxPayload: mp, MaxDelta: 0x0FFFFFFF})
		c.API = &a
		n = 64
	}
	if rapid.IntRange(0, 7).Draw(t, "extendedHeader?") == 0 {
		c.HeaderExtra = rapid.SampledFrom([]int{1, 2, 3, 4, 8, 26}).Draw(t, "headerExtra")
	}
	if rapid.IntRange(0, 2).Draw(t, "truncate?") == 0 {
		c.TruncAt = rapid.IntRange(0, n).Draw(t, "truncAt")
	} else {
		c.AllTruncations = rapid.Bool().Draw(t, "allTruncations")
	}
	k := rapid.IntRange(1, 5).Draw(t, "nRandom")
	for i := 0; i < k; i++ {
		cuts := rapid.SliceOfN(rapid.IntRange(1, n+8), 1, 12).Draw(t, "cuts")
		sort.Ints(cuts)
		c.Random = append(c.Random, cuts)
	}
	return c
}

var files = ev.NewCheck("C09", "files",
	"rapid: valid files from the byte-level grammar (C02 domain, payloads <= 200) and from the library's writer (C01 domain), whole or truncated at a drawn offset (for half of the whole files additionally EVERY truncation, each read from memory vs. single read with EOF, byte-wise, last byte together with EOF, two halves); payloads <= 200 bytes, in one case of ten up to 70000 bytes (crossing the 4 KiB / 64 KiB buffer thresholds; for files > 1500 bytes the split points are all offsets around field boundaries and size thresholds plus a stride); per file: one-byte reads, a single read, a bufio.Reader, a reader whose Seek method fails, a real os.Pipe, smf.ReadFile on a named pipe, EVERY single split point, 1..5 random partitions, each with and without the final bytes delivered together with io.EOF; readers never return 0 bytes without error; the reads rotate over the entry points ReadFrom, ReadFrom with smf.Log and ReadTracksFrom (each compared with the read from memory made the same way); one file in eight has an extended header chunk (declared length 7..32 with extra bytes); oracle = differential against smf.ReadFrom(bytes.Reader): both fail or both succeed, same failure kind (nil / ErrMissing / other), deep-equal value (format, division, events, tempo map); the per-fragmentation counts are in part 'fragmentations'",
	genCase, run)

func TestPropFiles(t *testing.T) { files.Rapid(t, 100, 3000) }

var big = ev.NewCheck("C09", "big-payload-truncations",
	"enumeration: files whose LAST track holds one sysex / escape / meta payload of 65537, 70000 or 140000 bytes (beyond the 64 KiB block size of the reader), preceded by a small track and an unknown chunk; whole, and truncated exactly behind the payload's length field, one byte into the payload, at its end, and inside it at offsets around 4 KiB, 64 KiB and the middle; each read like in 'files' (byte-wise, single read, bufio, pipe, every selected split point, block partitions of 4096 and 65536 bytes, each with and without the last bytes delivered together with io.EOF, with and without smf.Log); same differential oracle",
	nil, run)

func TestEnumBigPayloads(t *testing.T) {
	big.R.Exhaustive = true
	i := 0
	for _, kind := range []smfref.Event{{Status: 0xF0}, {Status: 0xF7}, {Status: 0xFF, MetaType: 0x01}, {Status: 0xFF, MetaType: 0x7F}} {
		for _, n := range []int{65537, 70000, 140000} {
			e := kind
			e.Delta = 3
			e.Data = make([]byte, n)
			for j := range e.Data {
				e.Data[j] = byte(j*5) & 0x7F
			}
			if e.Status == 0xF0 {
				e.Data[n-1] = 0xF7
			}
			eot := smfref.Event{Status: 0xFF, MetaType: 0x2F}
			f := smfref.File{Format: 1, NTracks: 2, Division: 96, Chunks: []smfref.Chunk{
				{IsTrack: true, Events: []smfref.Event{{Status: 0x90, Data: []byte{60, 100}}, {Delta: 5, Status: 0x80, Data: []byte{60, 0}}, eot}},
				{Type: [4]byte{'X', 'F', 'I', 'H'}, Data: []byte{1, 2, 3, 4, 5, 6, 7, 8, 9, 10, 11, 12, 13, 14, 15, 16, 17, 18, 19, 20}},
				{IsTrack: true, Events: []smfref.Event{{Status: 0xC1, Data: []byte{7}}, e, {Delta: 1, Status: 0x91, Data: []byte{1, 2}}, eot}},
			}}
			full := smfref.Build(f)
			start := len(full) - n - 12 // a little before the payload
			// exactly behind the length field of the big payload, one byte into it, its last byte
			ps := bytes.Index(full, e.Data[:64])
			for _, off := range []int{ps, ps + 1, ps - 1, ps + n - 1, ps + n, -1, start + 14, start + 4095, start + 4108, start + 65535 + 12, start + 65536 + 12, start + 65537 + 12, start + n/2, len(full) - 9, len(full) - 1} {
				i++
				if i%ev.Shards() != ev.Shard() {
					continue
				}
				if off >= len(full) {
					continue
				}
				c := Case{Grammar: &f, TruncAt: off}
				var blocks4k, blocks64k []int
				for x := 4096; x < len(full); x += 4096 {
					blocks4k = append(blocks4k, x)
				}
				for x := 65536; x < len(full); x += 65536 {
					blocks64k = append(blocks64k, x)
				}
				c.Random = [][]int{blocks4k, blocks64k}
				t.Run(fmt.Sprintf("%02X-%02X-%d-trunc%d", e.Status, e.MetaType, n, off), func(t *testing.T) { big.One(t, c) })
			}
		}
	}
}

func TestReplay(t *testing.T) { ev.ReplayAll(t) }

// Package midiref is an independent model of the MIDI 1.0 wire protocol, written from the
// specification and never importing the library under test: byte classes, a sender that
// serialises messages with running status and interleaved real-time bytes, and the
// receiver state machine every MIDI input implements.
package midiref

import "gitlab.com/gomidi/midi/v2/zverif/hx"

// DataLen returns the number of data bytes that follow a status byte:
// channel voice 1 or 2, F1/F3 1, F2 2, F6 and real-time 0; -1 for F0/F7 and the undefined
// F4/F5.
func DataLen(status byte) int {
	switch {
	case status < 0x80:
		return -1
	case status < 0xF0:
		switch status & 0xF0 {
		case 0xC0, 0xD0:
			return 1
		}
		return 2
	case status == 0xF1 || status == 0xF3:
		return 1
	case status == 0xF2:
		return 2
	case status == 0xF6 || status >= 0xF8:
		return 0
	}
	return -1
}

func IsRealtime(b byte) bool { return b >= 0xF8 }

// DontCare reports the undefined real-time bytes F9 and FD: the statements allow both
// "skipped as undefined" and "passed through as real-time", so they are removed from both
// sides of every comparison (they must still not disturb anything else).
func DontCare(msg []byte) bool { return len(msg) == 1 && (msg[0] == 0xF9 || msg[0] == 0xFD) }

// Delivered is one message handed to the listener by the reference receiver.
type Delivered struct {
	Msg     hx.B
	TS      int32 // time of the chunk that carried the last byte
	TSFirst int32 // time of the chunk that carried the first byte (sysex)
	TS64    int64 // TS without the wrap-around of the 32-bit time stamp
}

// Receiver is the MIDI 1.0 receiver model.
//   - real-time bytes are delivered at once and touch nothing
//   - a status byte abandons any incomplete message (also an unterminated sysex)
//   - channel status sets running status; F0..F7 clear it
//   - data bytes without (running) status are ignored; F4/F5 are skipped
//   - a sysex is delivered at its F7 if F0..F7 fits into BufSize bytes, else dropped
//   - a lone F7 delivers nothing
type Receiver struct {
	BufSize int // 0 = 1024

	now      int32
	now64    int64
	running  byte
	status   byte // status of the message being assembled (0 = none)
	data     []byte
	tsFirst  int32
	inSysex  bool
	syx      []byte
	overflow bool

	Out []Delivered
	// Anomalies counts what makes a stream non-trivial for the resynchronisation property.
	Interrupted, Oversize, Undefined, Orphan int
}

func (r *Receiver) bufSize() int {
	if r.BufSize <= 0 {
		return 1024
	}
	return r.BufSize
}

// Feed processes one delivery chunk that arrives delta milliseconds after the previous one.
func (r *Receiver) Feed(chunk []byte, delta int32) {
	r.now += delta
	r.now64 += int64(delta)
	for _, b := range chunk {
		r.Byte(b)
	}
}

func (r *Receiver) abandon() {
	if r.inSysex || (r.status != 0 && len(r.data) > 0) || (r.status >= 0xF0 && r.status != 0) {
		r.Interrupted++
	}
	r.inSysex = false
	r.syx = nil
	r.overflow = false
	r.status = 0
	r.data = nil
}

func (r *Receiver) Byte(b byte) {
	switch {
	case b >= 0xF8:
		r.Out = append(r.Out, Delivered{Msg: []byte{b}, TS64: r.now64, TS: r.now, TSFirst: r.now})
	case b == 0xF7:
		if r.inSysex {
			if !r.overflow && len(r.syx)+1 <= r.bufSize() {
				m := append(append([]byte{}, r.syx...), 0xF7)
				r.Out = append(r.Out, Delivered{Msg: m, TS64: r.now64, TS: r.now, TSFirst: r.tsFirst})
			} else {
				r.Oversize++
			}
			r.inSysex, r.syx, r.overflow = false, nil, false
		} else {
			r.abandon()
		}
		r.status, r.data = 0, nil
		r.running = 0
	case b >= 0x80: // any other status byte
		r.abandon()
		switch {
		case b < 0xF0:
			r.running = b
			r.status = b
			r.tsFirst = r.now
		case b == 0xF0:
			r.running = 0
			r.inSysex = true
			r.syx = []byte{0xF0}
			r.tsFirst = r.now
			if r.bufSize() < 1 {
				r.overflow = true
			}
		case b == 0xF6:
			r.running = 0
			r.Out = append(r.Out, Delivered{Msg: []byte{b}, TS64: r.now64, TS: r.now, TSFirst: r.now})
		case b == 0xF4 || b == 0xF5:
			r.running = 0
			r.Undefined++
		default: // F1 F2 F3
			r.running = 0
			r.status = b
			r.tsFirst = r.now
		}
	default: // data byte
		if r.inSysex {
			if len(r.syx) < r.bufSize() {
				r.syx = append(r.syx, b)
			} else {
				r.overflow = true
			}
			return
		}
		if r.status == 0 {
			if r.running == 0 {
				r.Orphan++
				return
			}
			r.status = r.running
			r.tsFirst = r.now
		}
		r.data = append(r.data, b)
		if len(r.data) == DataLen(r.status) {
			m := append([]byte{r.status}, r.data...)
			r.Out = append(r.Out, Delivered{Msg: m, TS64: r.now64, TS: r.now, TSFirst: r.tsFirst})
			r.status, r.data = 0, nil
		}
	}
}

// WellFormed checks a delivered message: non-empty, status first, then only data bytes
// (sysex: terminated by F7), length as the status implies.
func WellFormed(m []byte) string {
	if len(m) == 0 {
		return "empty message"
	}
	st := m[0]
	if st < 0x80 {
		return "does not start with a status byte"
	}
	if st == 0xF0 {
		if len(m) < 2 || m[len(m)-1] != 0xF7 {
			return "sysex not terminated by F7"
		}
		for _, b := range m[1 : len(m)-1] {
			if b >= 0x80 {
				return "status byte inside sysex"
			}
		}
		return ""
	}
	n := DataLen(st)
	if n < 0 {
		return "undefined or unpaired status delivered"
	}
	if len(m) != 1+n {
		return "wrong length for its status"
	}
	for _, b := range m[1:] {
		if b >= 0x80 {
			return "data byte >= 0x80"
		}
	}
	return ""
}

// ---- sender ----------------------------------------------------------------------------

// RTInsert places a real-time byte in front of byte Pos of a serialised message
// (Pos == length: directly after the message).
type RTInsert struct {
	Pos  int
	Byte byte
}

// Item is one message to put on the wire with its serialisation choices.
type Item struct {
	Msg   hx.B       // complete message with explicit status
	Elide bool       // omit the status byte if running status allows it
	RT    []RTInsert `json:",omitempty"`
}

// Serialise returns the wire bytes of the items and, per stream offset, nothing else; the
// expectation is derived separately by Expected.
func Serialise(items []Item) []byte {
	var out []byte
	var running byte
	for _, it := range items {
		m := []byte(it.Msg)
		st := m[0]
		ser := m
		if st < 0xF0 {
			if it.Elide && running == st {
				ser = m[1:]
			}
			running = st
		} else if st <= 0xF7 {
			running = 0
		}
		k := 0
		for pos := 0; pos <= len(ser); pos++ {
			for ; k < len(it.RT) && it.RT[k].Pos <= pos; k++ {
				out = append(out, it.RT[k].Byte)
			}
			if pos < len(ser) {
				out = append(out, ser[pos])
			}
		}
		for ; k < len(it.RT); k++ {
			out = append(out, it.RT[k].Byte)
		}
	}
	return out
}

// Elided reports whether the item's status byte is really omitted on the wire.
func Elided(items []Item) []bool {
	res := make([]bool, len(items))
	var running byte
	for i, it := range items {
		st := it.Msg[0]
		if st < 0xF0 {
			res[i] = it.Elide && running == st
			running = st
		} else if st <= 0xF7 {
			running = 0
		}
	}
	return res
}

// Expected returns the messages in the order in which they complete on the wire: a
// real-time byte placed before the last byte of a message completes before that message.
func Expected(items []Item) [][]byte {
	var out [][]byte
	el := Elided(items)
	for i, it := range items {
		n := len(it.Msg)
		if el[i] {
			n--
		}
		var after [][]byte
		for _, rt := range it.RT {
			if rt.Pos < n || n == 0 {
				out = append(out, []byte{rt.Byte})
			} else {
				after = append(after, []byte{rt.Byte})
			}
		}
		out = append(out, append([]byte{}, it.Msg...))
		out = append(out, after...)
	}
	return out
}

// Package smfref is an independent implementation of the Standard MIDI File 1.0 format,
// written from the specification and never importing the library under test:
//
//   - Build:  byte-level file builder from a grammar value with explicit encoding choices
//   - Decode: tolerant, chunk-length driven decoder (skips alien chunks, resolves running status)
//   - Strict: parser that accepts only what a conforming *writer* may emit
package smfref

import (
	"encoding/binary"
	"errors"
	"fmt"

	"gitlab.com/gomidi/midi/v2/zverif/hx"
)

// Event is one MTrk event.
type Event struct {
	Delta    uint32
	Status   byte // channel: full status byte 0x80..0xEF; meta: 0xFF; sysex: 0xF0 or 0xF7
	MetaType byte // meta only
	Data     hx.B // channel: data bytes (1 or 2); meta/sysex: payload

	// encoding choices used by Build only
	Running  bool // elide the status byte (legal only directly after a channel event of the same status)
	DeltaPad int  // leading 0x80 bytes in front of the delta VLQ (total length stays <= 4)
	LenPad   int  // same for the length VLQ of meta/sysex events
}

func (e Event) IsChannel() bool { return e.Status >= 0x80 && e.Status <= 0xEF }
func (e Event) IsMeta() bool    { return e.Status == 0xFF }
func (e Event) IsSysex() bool   { return e.Status == 0xF0 || e.Status == 0xF7 }
func (e Event) IsEOT() bool     { return e.IsMeta() && e.MetaType == 0x2F }

// LibBytes is the representation the library uses for a message in a Track:
// channel bytes verbatim, FF type VLQ(len) payload, F0|F7 followed by the payload.
func (e Event) LibBytes() []byte {
	switch {
	case e.IsChannel():
		return append([]byte{e.Status}, e.Data...)
	case e.IsMeta():
		b := []byte{0xFF, e.MetaType}
		b = append(b, VLQ(uint32(len(e.Data)))...)
		return append(b, e.Data...)
	default:
		return append([]byte{e.Status}, e.Data...)
	}
}

// DataLen returns the number of data bytes a channel status takes (0 if not a channel status).
func DataLen(status byte) int {
	switch status & 0xF0 {
	case 0x80, 0x90, 0xA0, 0xB0, 0xE0:
		return 2
	case 0xC0, 0xD0:
		return 1
	}
	return 0
}

// Chunk is a chunk after the header. Alien chunks have Events == nil and IsTrack == false.
type Chunk struct {
	Type    [4]byte
	IsTrack bool
	Events  []Event // track chunk
	Data    hx.B    // alien chunk body
}

// File is a whole SMF.
type File struct {
	Format   uint16
	NTracks  uint16 // declared in the header
	Division uint16 // raw division word
	Chunks   []Chunk
}

// NEvent / Normal: the comparison form (delta + library style message bytes per track).
type NEvent struct {
	Delta uint32
	Msg   hx.B
}

// Tracks returns the track chunks in file order in comparison form.
func (f File) Tracks() [][]NEvent {
	var out [][]NEvent
	for _, c := range f.Chunks {
		if !c.IsTrack {
			continue
		}
		tr := make([]NEvent, 0, len(c.Events))
		for _, e := range c.Events {
			tr = append(tr, NEvent{e.Delta, e.LibBytes()})
		}
		out = append(out, tr)
	}
	return out
}

// VLQ is the canonical (shortest) variable length quantity.
func VLQ(n uint32) []byte {
	var tmp [5]byte
	i := 4
	tmp[i] = byte(n & 0x7F)
	n >>= 7
	for n > 0 {
		i--
		tmp[i] = byte(n&0x7F) | 0x80
		n >>= 7
	}
	return append([]byte{}, tmp[i:]...)
}

// PaddedVLQ prepends up to pad 0x80 bytes while keeping the total length <= 4.
func PaddedVLQ(n uint32, pad int) []byte {
	v := VLQ(n)
	for pad > 0 && len(v) < 4 {
		v = append([]byte{0x80}, v...)
		pad--
	}
	return v
}

var mtrk = [4]byte{'M', 'T', 'r', 'k'}

// BuildTrackBody serialises the events of one track.
func BuildTrackBody(evs []Event) []byte {
	var b []byte
	for _, e := range evs {
		b = append(b, PaddedVLQ(e.Delta, e.DeltaPad)...)
		switch {
		case e.IsChannel():
			if !e.Running {
				b = append(b, e.Status)
			}
			b = append(b, e.Data...)
		case e.IsMeta():
			b = append(b, 0xFF, e.MetaType)
			b = append(b, PaddedVLQ(uint32(len(e.Data)), e.LenPad)...)
			b = append(b, e.Data...)
		default:
			b = append(b, e.Status)
			b = append(b, PaddedVLQ(uint32(len(e.Data)), e.LenPad)...)
			b = append(b, e.Data...)
		}
	}
	return b
}

// Build serialises the file (header length is always 6).
func Build(f File) []byte {
	b := []byte{'M', 'T', 'h', 'd', 0, 0, 0, 6}
	b = binary.BigEndian.AppendUint16(b, f.Format)
	b = binary.BigEndian.AppendUint16(b, f.NTracks)
	b = binary.BigEndian.AppendUint16(b, f.Division)
	for _, c := range f.Chunks {
		body := c.Data
		typ := c.Type
		if c.IsTrack {
			body = BuildTrackBody(c.Events)
			typ = mtrk
		}
		b = append(b, typ[:]...)
		b = binary.BigEndian.AppendUint32(b, uint32(len(body)))
		b = append(b, body...)
	}
	return b
}

var ErrTruncated = errors.New("smfref: truncated")

type parser struct {
	b      []byte
	pos    int
	strict bool
	// Ranges collects [start,end) of every multi-byte fixed-length field / payload (used by
	// the fragmentation property to tell whether a split point lies inside such a field).
	Ranges [][2]int
}

func (p *parser) need(n int) error {
	if n < 0 || p.pos+n > len(p.b) {
		return ErrTruncated
	}
	return nil
}

func (p *parser) take(n int) ([]byte, error) {
	if err := p.need(n); err != nil {
		return nil, err
	}
	if n > 1 {
		p.Ranges = append(p.Ranges, [2]int{p.pos, p.pos + n})
	}
	s := p.b[p.pos : p.pos+n]
	p.pos += n
	return s, nil
}

func (p *parser) vlq(limit int) (uint32, error) {
	var v uint32
	start := p.pos
	for i := 0; ; i++ {
		if p.pos >= limit {
			return 0, ErrTruncated
		}
		c := p.b[p.pos]
		p.pos++
		if i == 0 && c == 0x80 && p.strict {
			return 0, fmt.Errorf("non-minimal VLQ at offset %d", start)
		}
		v = v<<7 | uint32(c&0x7F)
		if c&0x80 == 0 {
			return v, nil
		}
		if i == 3 {
			return 0, fmt.Errorf("VLQ longer than 4 bytes at offset %d", start)
		}
	}
}

// Result of Decode/Strict.
type Result struct {
	File   File
	Ranges [][2]int
}

// Decode is the tolerant decoder: any valid SMF 1.0 file is accepted.
func Decode(b []byte) (Result, error) { return parse(b, false) }

// Strict accepts only files a conforming writer may emit (see package comment):
// header length 6, ntrks == number of MTrk chunks, no alien chunks, exact chunk lengths,
// no trailing bytes, canonical VLQs, running status only where legal, data bytes < 0x80,
// exactly one end-of-track per track and as its last event, known format, sane division.
func Strict(b []byte) (Result, error) { return parse(b, true) }

func parse(b []byte, strict bool) (Result, error) {
	p := &parser{b: b, strict: strict}
	var f File
	magic, err := p.take(4)
	if err != nil {
		return Result{}, err
	}
	if string(magic) != "MThd" {
		return Result{}, errors.New("smfref: no MThd")
	}
	lb, err := p.take(4)
	if err != nil {
		return Result{}, err
	}
	hl := binary.BigEndian.Uint32(lb)
	if hl < 6 || (strict && hl != 6) {
		return Result{}, fmt.Errorf("smfref: header length %d", hl)
	}
	w, err := p.take(2)
	if err != nil {
		return Result{}, err
	}
	f.Format = binary.BigEndian.Uint16(w)
	if w, err = p.take(2); err != nil {
		return Result{}, err
	}
	f.NTracks = binary.BigEndian.Uint16(w)
	if w, err = p.take(2); err != nil {
		return Result{}, err
	}
	f.Division = binary.BigEndian.Uint16(w)
	if hl > 6 {
		if _, err = p.take(int(hl - 6)); err != nil {
			return Result{}, err
		}
	}
	if f.Format > 2 {
		return Result{}, fmt.Errorf("smfref: format %d", f.Format)
	}
	if strict {
		if f.Format == 0 && f.NTracks != 1 {
			return Result{}, fmt.Errorf("smfref: format 0 with %d tracks", f.NTracks)
		}
		if f.Division&0x8000 != 0 {
			fps := -int(int8(f.Division >> 8))
			if fps != 24 && fps != 25 && fps != 29 && fps != 30 {
				return Result{}, fmt.Errorf("smfref: SMPTE rate %d", fps)
			}
		} else if f.Division == 0 {
			return Result{}, errors.New("smfref: division 0")
		}
		if f.NTracks == 0 {
			return Result{}, errors.New("smfref: no tracks")
		}
	}
	ntr := 0
	for p.pos < len(b) {
		if !strict && ntr == int(f.NTracks) {
			// tolerant: trailing alien chunks are still skipped, trailing garbage ignored
			if len(b)-p.pos < 8 {
				break
			}
		}
		typ, err := p.take(4)
		if err != nil {
			return Result{f, p.Ranges}, err
		}
		lb, err := p.take(4)
		if err != nil {
			return Result{f, p.Ranges}, err
		}
		cl := int(binary.BigEndian.Uint32(lb))
		if err := p.need(cl); err != nil {
			return Result{f, p.Ranges}, err
		}
		var c Chunk
		copy(c.Type[:], typ)
		if c.Type != mtrk {
			if strict {
				return Result{}, fmt.Errorf("smfref: alien chunk %q", typ)
			}
			c.Data = append([]byte{}, b[p.pos:p.pos+cl]...)
			if cl > 1 {
				p.Ranges = append(p.Ranges, [2]int{p.pos, p.pos + cl})
			}
			p.pos += cl
			f.Chunks = append(f.Chunks, c)
			continue
		}
		c.IsTrack = true
		end := p.pos + cl
		evs, err := p.track(end)
		c.Events = evs
		f.Chunks = append(f.Chunks, c)
		if err != nil {
			return Result{f, p.Ranges}, err
		}
		p.pos = end
		ntr++
	}
	if strict && ntr != int(f.NTracks) {
		return Result{}, fmt.Errorf("smfref: header declares %d tracks, file has %d", f.NTracks, ntr)
	}
	if !strict && ntr < int(f.NTracks) {
		return Result{f, p.Ranges}, fmt.Errorf("smfref: header declares %d tracks, file has %d", f.NTracks, ntr)
	}
	return Result{f, p.Ranges}, nil
}

func (p *parser) track(end int) ([]Event, error) {
	var evs []Event
	var running byte
	for p.pos < end {
		var e Event
		d, err := p.vlq(end)
		if err != nil {
			return evs, err
		}
		e.Delta = d
		if p.pos >= end {
			return evs, ErrTruncated
		}
		c := p.b[p.pos]
		switch {
		case c == 0xFF:
			p.pos++
			if p.pos >= end {
				return evs, ErrTruncated
			}
			e.Status = 0xFF
			e.MetaType = p.b[p.pos]
			p.pos++
			if p.strict && e.MetaType >= 0x80 {
				return evs, fmt.Errorf("smfref: meta type %02X", e.MetaType)
			}
			n, err := p.vlq(end)
			if err != nil {
				return evs, err
			}
			if p.pos+int(n) > end {
				return evs, ErrTruncated
			}
			if n > 1 {
				p.Ranges = append(p.Ranges, [2]int{p.pos, p.pos + int(n)})
			}
			e.Data = append([]byte{}, p.b[p.pos:p.pos+int(n)]...)
			p.pos += int(n)
			running = 0
		case c == 0xF0 || c == 0xF7:
			p.pos++
			e.Status = c
			n, err := p.vlq(end)
			if err != nil {
				return evs, err
			}
			if p.pos+int(n) > end {
				return evs, ErrTruncated
			}
			if n > 1 {
				p.Ranges = append(p.Ranges, [2]int{p.pos, p.pos + int(n)})
			}
			e.Data = append([]byte{}, p.b[p.pos:p.pos+int(n)]...)
			p.pos += int(n)
			running = 0
		case c >= 0x80 && c <= 0xEF:
			p.pos++
			e.Status = c
			running = c
			n := DataLen(c)
			if p.pos+n > end {
				return evs, ErrTruncated
			}
			e.Data = append([]byte{}, p.b[p.pos:p.pos+n]...)
			p.pos += n
		case c < 0x80:
			if running == 0 {
				return evs, fmt.Errorf("smfref: data byte %02X without running status at offset %d", c, p.pos)
			}
			e.Status = running
			e.Running = true
			n := DataLen(running)
			if p.pos+n > end {
				return evs, ErrTruncated
			}
			e.Data = append([]byte{}, p.b[p.pos:p.pos+n]...)
			p.pos += n
		default:
			return evs, fmt.Errorf("smfref: status %02X is not allowed in a track (offset %d)", c, p.pos)
		}
		if e.IsChannel() && p.strict {
			for _, x := range e.Data {
				if x >= 0x80 {
					return evs, fmt.Errorf("smfref: data byte %02X >= 0x80 in channel event", x)
				}
			}
		}
		evs = append(evs, e)
		if e.IsEOT() {
			if p.strict {
				if len(e.Data) != 0 {
					return evs, errors.New("smfref: end-of-track with payload")
				}
				if p.pos != end {
					return evs, fmt.Errorf("smfref: %d bytes after end-of-track inside the chunk", end-p.pos)
				}
			}
			return evs, nil
		}
	}
	return evs, errors.New("smfref: track without end-of-track")
}

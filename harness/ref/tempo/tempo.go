// Package tempo is the exact reference for tick -> time conversion of a metric SMF:
// the integral of the tempo map in rational arithmetic.
package tempo

import "math/big"

// Change is a tempo event: from AbsTick on, a quarter note lasts USPQ microseconds.
type Change struct {
	AbsTick int64
	USPQ    int64
}

const DefaultUSPQ = 500000 // 120 BPM before the first tempo event

// Exact returns the exact time of tick in microseconds as a rational number.
// changes must be ordered by AbsTick (file order); of several changes at one tick the last
// one wins; each tempo is valid from its tick until the next change.
func Exact(res int64, changes []Change, tick int64) *big.Rat {
	num := new(big.Int) // sum of ticks*uspq
	cur := int64(DefaultUSPQ)
	pos := int64(0)
	for _, c := range changes {
		if c.AbsTick >= tick {
			break
		}
		if c.AbsTick > pos {
			num.Add(num, new(big.Int).Mul(big.NewInt(c.AbsTick-pos), big.NewInt(cur)))
			pos = c.AbsTick
		}
		cur = c.USPQ
	}
	if tick > pos {
		num.Add(num, new(big.Int).Mul(big.NewInt(tick-pos), big.NewInt(cur)))
	}
	return new(big.Rat).SetFrac(num, big.NewInt(res))
}

// Segments returns the number of distinct-tick tempo segments that start strictly below tick
// (the count of places where the implementation may round).
func Segments(changes []Change, tick int64) int {
	n := 0
	last := int64(-1)
	for _, c := range changes {
		if c.AbsTick >= tick {
			break
		}
		if c.AbsTick != last {
			n++
			last = c.AbsTick
		}
	}
	return n
}

// Package lineproto is the reference model of the midicat line protocol: one record per
// line, "<decimal time stamp> <upper-case hex bytes>\n", exactly as the driver's encoder
// ("%d %X\n") writes it.
package lineproto

import (
	"fmt"
	"strconv"
)

// Record is one (time stamp, message) pair.
type Record struct {
	TS  int32
	Msg []byte
}

// Encode writes records the way the driver does.
func Encode(recs []Record) []byte {
	var b []byte
	for _, r := range recs {
		b = append(b, fmt.Sprintf("%d %X\n", r.TS, r.Msg)...)
	}
	return b
}

// Line is one line of a stream as the model sees it.
type Line struct {
	Text       string
	Terminated bool
	WellFormed bool
	Rec        Record
}

func hexVal(c byte) (byte, bool) {
	switch {
	case c >= '0' && c <= '9':
		return c - '0', true
	case c >= 'A' && c <= 'F':
		return c - 'A' + 10, true
	}
	return 0, false
}

// parseLine: -?[0-9]+ ' ' ([0-9A-F]{2})+ , time stamp within int32.
func parseLine(s string) (Record, bool) {
	i := 0
	if i < len(s) && s[i] == '-' {
		i++
	}
	d0 := i
	for i < len(s) && s[i] >= '0' && s[i] <= '9' {
		i++
	}
	if i == d0 || i >= len(s) || s[i] != ' ' {
		return Record{}, false
	}
	ts, err := strconv.ParseInt(s[:i], 10, 32)
	if err != nil {
		return Record{}, false
	}
	h := s[i+1:]
	if len(h) == 0 || len(h)%2 != 0 {
		return Record{}, false
	}
	msg := make([]byte, 0, len(h)/2)
	for j := 0; j < len(h); j += 2 {
		a, ok1 := hexVal(h[j])
		b, ok2 := hexVal(h[j+1])
		if !ok1 || !ok2 {
			return Record{}, false
		}
		msg = append(msg, a<<4|b)
	}
	return Record{int32(ts), msg}, true
}

// Lines splits a stream at newlines and classifies every line; a non-empty rest without
// terminator is a (malformed) line of its own.
func Lines(stream []byte) []Line {
	var out []Line
	start := 0
	for i, c := range stream {
		if c == '\n' {
			l := Line{Text: string(stream[start:i]), Terminated: true}
			l.Rec, l.WellFormed = parseLine(l.Text)
			out = append(out, l)
			start = i + 1
		}
	}
	if start < len(stream) {
		out = append(out, Line{Text: string(stream[start:]), Terminated: false})
	}
	return out
}

// Command midicat is the stand-in for the external `midicat` helper binary that the
// process-backed driver (drivers/midicatdrv) starts. It speaks the same command line and
// the same line protocol, but instead of real MIDI ports it uses files below
// $MIDICAT_STANDIN_DIR so that the harness can act as the cable:
//
//	midicat version -s        prints a version the driver accepts
//	midicat ins --json        two in ports,  midicat outs --json   two out ports
//	midicat out --index=N     appends every line read from stdin to out-N.log
//	midicat in --index=N      creates the FIFO in-N-$MIDICAT_STANDIN_GEN.fifo, marks itself
//	                          ready and copies the FIFO to stdout
package main

import (
	"bufio"
	"fmt"
	"io"
	"os"
	"path/filepath"
	"strings"
	"syscall"
)

func dir() string {
	d := os.Getenv("MIDICAT_STANDIN_DIR")
	if d == "" {
		d = filepath.Join(os.TempDir(), "midicat-standin")
	}
	os.MkdirAll(d, 0o755)
	return d
}

func index(args []string) string {
	for _, a := range args {
		if strings.HasPrefix(a, "--index=") {
			return strings.TrimPrefix(a, "--index=")
		}
	}
	return "0"
}

func main() {
	if len(os.Args) < 2 {
		os.Exit(2)
	}
	switch os.Args[1] {
	case "version":
		fmt.Print("0.6.9")
	case "ins":
		fmt.Print(`{"0":"standin-in-0","1":"standin-in-1"}`)
	case "outs":
		fmt.Print(`{"0":"standin-out-0","1":"standin-out-1"}`)
	case "out":
		f, err := os.OpenFile(filepath.Join(dir(), "out-"+index(os.Args)+".log"), os.O_CREATE|os.O_WRONLY|os.O_APPEND, 0o644)
		if err != nil {
			fmt.Fprintln(os.Stderr, err)
			os.Exit(1)
		}
		rd := bufio.NewReader(os.Stdin)
		for {
			line, err := rd.ReadString('\n')
			if len(line) > 0 {
				f.WriteString(line) // O_APPEND: one write per line
			}
			if err != nil {
				return
			}
		}
	case "in":
		base := filepath.Join(dir(), "in-"+index(os.Args)+"-"+os.Getenv("MIDICAT_STANDIN_GEN"))
		fifo := base + ".fifo"
		syscall.Mkfifo(fifo, 0o644)
		f, err := os.OpenFile(fifo, os.O_RDWR, 0) // read-write: never blocks, never sees EOF
		if err != nil {
			fmt.Fprintln(os.Stderr, err)
			os.Exit(1)
		}
		os.WriteFile(base+".ready", []byte(fmt.Sprint(os.Getpid())), 0o644)
		io.Copy(os.Stdout, f)
	default:
		os.Exit(2)
	}
}

// Package c16 decides property C16: converting a format-0 file to format 1 preserves every
// event and its time.
package c16

import (
	"bytes"
	"fmt"
	"testing"

	"gitlab.com/gomidi/midi/v2/smf"
	"gitlab.com/gomidi/midi/v2/zverif/adapt"
	"gitlab.com/gomidi/midi/v2/zverif/ev"
	"gitlab.com/gomidi/midi/v2/zverif/gen"
	"pgregory.net/rapid"
)

func TestMain(m *testing.M) { ev.Main(m) }

type SrcEv struct {
	Delta uint32
	Msg   ev.Hex
}

type Case struct {
	Division uint16
	Events   []SrcEv
	Close    bool   // source track closed explicitly
	CloseAt  uint32 // with this delta
	ViaFile  bool   // source is written and read back first (a file, not only a value)
}

type absMsg struct {
	abs int64
	msg []byte
}

func channelOf(msg []byte) (int, bool) {
	if len(msg) > 0 && msg[0] >= 0x80 && msg[0] <= 0xEF {
		return int(msg[0] & 0x0F), true
	}
	return 0, false
}

var eot = []byte{0xFF, 0x2F, 0x00}

func run(c Case) ev.Result { return runStage(c, 0) }

func runStage(c Case, stage int) (res ev.Result) {
	src := smf.New()
	src.TimeFormat = adapt.TimeFormat(c.Division)
	var tr smf.Track
	// model: absolute tick per message, routed
	var metaWant []absMsg
	chWant := map[int][]absMsg{}
	var abs int64
	perTick := map[int64]int{}
	for _, e := range c.Events {
		tr.Add(e.Delta, append([]byte{}, e.Msg...))
		abs += int64(e.Delta)
		perTick[abs]++
		if ch, ok := channelOf(e.Msg); ok {
			chWant[ch] = append(chWant[ch], absMsg{abs, e.Msg})
		} else {
			metaWant = append(metaWant, absMsg{abs, e.Msg})
		}
	}
	if c.Close {
		tr.Close(c.CloseAt)
		abs += int64(c.CloseAt)
		metaWant = append(metaWant, absMsg{abs, eot})
	}
	// the API carries deltas as uint32: a result track whose neighbours lie 2^32 ticks or more
	// apart cannot be expressed, such sources are outside the domain
	for _, w := range append([][]absMsg{metaWant}, func() (l [][]absMsg) {
		for _, x := range chWant {
			l = append(l, x)
		}
		return
	}()...) {
		var last int64
		for _, e := range w {
			if e.abs-last >= 1<<32 {
				res.Skip = true
				return
			}
			last = e.abs
		}
	}
	src.Add(tr)
	if c.ViaFile {
		var buf bytes.Buffer
		var err error
		var back *smf.SMF
		if p := ev.Try(func() {
			if _, err = src.WriteTo(&buf); err == nil {
				back, err = smf.ReadFrom(bytes.NewReader(buf.Bytes()))
			}
		}); p != "" || err != nil {
			res.Violation = fmt.Sprintf("write/read of the source failed: %v %s", err, p)
			return
		}
		src = back
		if !c.Close { // the writer closed the track with delta 0
			metaWant = append(metaWant, absMsg{abs, eot})
		}
	}
	var dst smf.SMF
	if p := ev.TryTimeout(ev.Watchdog, func() { dst = src.ConvertToSMF1() }); p != "" {
		res.Violation = "ConvertToSMF1: " + p
		return
	}
	maxPerTick := 0
	for _, n := range perTick {
		maxPerTick = max(maxPerTick, n)
	}
	res.Classes = []string{fmt.Sprintf("channels=%d", min(len(chWant), 4))}
	if maxPerTick > 12 {
		res.Classes = append(res.Classes, ">12-events-on-one-tick")
	}
	if c.ViaFile {
		res.Classes = append(res.Classes, "via-file")
	}
	lateMeta := false
	for _, m := range metaWant {
		lateMeta = lateMeta || (m.abs > 0 && !bytes.Equal(m.msg, eot))
	}
	res.Nontrivial = len(chWant) >= 3 && lateMeta && maxPerTick >= 3
	if abs > 0x0FFFFFFF {
		res.Classes = append(res.Classes, "total-ticks>0x0FFFFFFF")
	}
	if abs >= 1<<31 {
		res.Classes = append(res.Classes, "total-ticks>=2^31")
	}

	verify := func(dst smf.SMF) string {
		if dst.Format() != 1 {
			return fmt.Sprintf("result format %d, want 1", dst.Format())
		}
		if d, err := adapt.Division(dst.TimeFormat); err != nil || d != c.Division {
			return fmt.Sprintf("time division changed: %v (%04X), source %04X", dst.TimeFormat, d, c.Division)
		}
		// The statement fixes: everything that is not a channel message on the first track, every
		// channel's messages on one track of their own, absolute ticks and relative order kept,
		// every track terminated by exactly one end-of-track. It does not fix the number or order of
		// the channel tracks (empty ones may exist) nor where a channel track's end-of-track sits.
		if len(dst.Tracks) == 0 {
			return "result has no tracks"
		}
		compare := func(name string, got smf.Track, w []absMsg) string {
			eotFixed := len(w) > 0 && bytes.Equal(w[len(w)-1].msg, eot)
			var wantEOT int64
			if eotFixed {
				wantEOT = w[len(w)-1].abs
				w = w[:len(w)-1]
			}
			if len(got) == 0 || !bytes.Equal(got[len(got)-1].Message, eot) {
				return fmt.Sprintf("%s is not terminated by an end-of-track event", name)
			}
			var gabs int64
			for j := 0; j < len(got)-1 || j < len(w); j++ {
				if j >= len(got)-1 {
					return fmt.Sprintf("%s: message %d (% X at tick %d) is lost; track has %d messages, want %d", name, j, w[j].msg, w[j].abs, len(got)-1, len(w))
				}
				gabs += int64(got[j].Delta)
				if j >= len(w) {
					return fmt.Sprintf("%s: unexpected extra event %d (% X at tick %d)", name, j, []byte(got[j].Message), gabs)
				}
				if gabs != w[j].abs || !bytes.Equal(got[j].Message, w[j].msg) {
					return fmt.Sprintf("%s event %d: got % X at tick %d, want % X at tick %d", name, j, []byte(got[j].Message), gabs, w[j].msg, w[j].abs)
				}
			}
			gabs += int64(got[len(got)-1].Delta)
			if eotFixed && gabs != wantEOT {
				return fmt.Sprintf("%s: end-of-track at tick %d, the source's end-of-track is at tick %d", name, gabs, wantEOT)
			}
			return ""
		}
		if v := compare("track 0 (non-channel messages)", dst.Tracks[0], metaWant); v != "" {
			return v
		}
		seen := map[int]bool{}
		for i := 1; i < len(dst.Tracks); i++ {
			got := dst.Tracks[i]
			ch := -1
			for _, e := range got {
				if c, ok := channelOf(e.Message); ok {
					ch = c
					break
				}
			}
			name := fmt.Sprintf("track %d", i)
			if ch < 0 {
				// a track without channel messages: must be empty apart from its end-of-track
				if v := compare(name+" (no channel messages)", got, nil); v != "" {
					return v
				}
				continue
			}
			if seen[ch] {
				return fmt.Sprintf("channel %d is spread over more than one track", ch)
			}
			seen[ch] = true
			if v := compare(fmt.Sprintf("%s (channel %d)", name, ch), got, chWant[ch]); v != "" {
				return v
			}
		}
		for ch := 0; ch < 16; ch++ {
			if len(chWant[ch]) > 0 && !seen[ch] {
				return fmt.Sprintf("the %d messages of channel %d are on no track of their own", len(chWant[ch]), ch)
			}
		}
		return ""
	}
	if res.Violation = verify(dst); res.Violation != "" {
		return
	}
	// The result belongs to the caller, and the conversion is a function of the source: a second
	// result is taken, then the caller appends an event to every track of the first one. Neither
	// the other tracks of the first result nor the second result may change.
	var dst2 smf.SMF
	if p := ev.TryTimeout(ev.Watchdog, func() { dst2 = src.ConvertToSMF1() }); p != "" {
		res.Violation = "second ConvertToSMF1: " + p
		return
	}
	view := dst
	view.Tracks = make([]smf.Track, len(dst.Tracks))
	for i := range dst.Tracks {
		n := len(dst.Tracks[i])
		dst.Tracks[i] = append(dst.Tracks[i], smf.Event{Delta: 9, Message: smf.Message{0xFF, 0x06, 0x01, 'x'}}, smf.Event{Delta: 0, Message: smf.Message{0xFF, 0x2F, 0x00}})
		view.Tracks[i] = dst.Tracks[i][:n]
	}
	if v := verify(view); v != "" {
		res.Violation = "after the caller appended an event to every track of the result: " + v
		return
	}
	if v := verify(dst2); v != "" {
		res.Violation = "second result of the same source, after the caller appended to the tracks of the first: " + v
		return
	}
	// A later, independent conversion of an equal source (built again from the same calls) after
	// the caller has overwritten the channel messages of an earlier result in place.
	if !c.ViaFile && stage == 0 {
		for _, tr := range dst2.Tracks {
			for _, e := range tr {
				// channel messages only (what re-channelling or transposing a result does): the
				// end-of-track message of a result is the exported variable smf.EOT itself
				if len(e.Message) > 0 && e.Message[0] < 0xF0 {
					for k := range e.Message {
						e.Message[k] ^= 0x09
					}
				}
			}
		}
		again := runStage(c, 1)
		if again.Violation != "" {
			res.Violation = "conversion of an equal source after the channel messages of an earlier result were overwritten in place: " + again.Violation
		}
	}
	return
}

func genCase(t *rapid.T) Case {
	var c Case
	c.Division = gen.Division().Draw(t, "division")
	n := rapid.OneOf(rapid.IntRange(0, 12), rapid.IntRange(0, 60), rapid.IntRange(0, 300)).Draw(t, "nEvents")
	nch := rapid.SampledFrom([]int{1, 2, 3, 5, 16}).Draw(t, "nChannels")
	var prev []byte
	var abs int64
	for i := 0; i < n; i++ {
		d := rapid.OneOf(rapid.Just(uint32(0)), rapid.Just(uint32(0)), rapid.Uint32Range(0, 2), rapid.Uint32Range(0, 500), rapid.Uint32Range(0, 200000),
			rapid.SampledFrom([]uint32{0x0FFFFFFF, 0x0FFFFFFE, 0x08000000, 0x07FFFFFF})).Draw(t, "delta")
		if abs+int64(d) >= 1<<38 {
			d = 0
		}
		abs += int64(d)
		var m []byte
		switch k := rapid.IntRange(0, 9).Draw(t, "kind"); {
		case k <= 6:
			m = gen.ChannelMessage(t, prev)
			m[0] = m[0]&0xF0 | byte(int(m[0]&0x0F)%nch)
		case k <= 8:
			m = gen.MetaMessage(t, 40)
		default:
			m = gen.SysexMessage(t, 40)
		}
		prev = m
		c.Events = append(c.Events, SrcEv{d, m})
	}
	c.Close = rapid.Bool().Draw(t, "close")
	if c.Close {
		c.CloseAt = rapid.OneOf(rapid.Just(uint32(0)), rapid.Uint32Range(0, 5000)).Draw(t, "closeDelta")
	}
	c.ViaFile = rapid.Bool().Draw(t, "viaFile")
	return c
}

var conv = ev.NewCheck("C16", "convert",
	"rapid: single-track smf.New() sources with 0..300 events (channel messages on 1..16 channels, metas, sysex), deltas biased to 0 (many events per tick, > 12 on one tick), closed or unclosed, all time divisions, every delta <= 0x0FFFFFFF (also the maximum itself, so that the gap between two messages of one result track can exceed it), total ticks < 2^38 with neighbours of one result track less than 2^32 ticks apart (the API carries deltas as uint32), payloads starting or ending with magic sequences such as FF 2F 00, as value or written+read back first; oracle = model: absolute tick per source message, non-channel messages (incl. the source's end-of-track) on track 0, one track per used channel in ascending order, per result track the (tick, bytes) sequence in source order followed by exactly one end-of-track, format 1, same division; non-trivial = >= 3 channels, a non-channel message after tick 0 and a tick with >= 3 events; distinct by case hash",
	genCase, run)

func TestPropConvert(t *testing.T) { conv.Rapid(t, 2500, 50000) }

func TestReplay(t *testing.T) { ev.ReplayAll(t) }

package live

import (
	"sort"

	"gitlab.com/gomidi/midi/v2/zverif/ref/midiref"
	"pgregory.net/rapid"
)

// LiveMessage draws one message of the C04 domain (explicit status).
func Message(t *rapid.T, prev []byte, bufSize int) []byte {
	d7 := rapid.OneOf(rapid.ByteRange(0, 127), rapid.SampledFrom([]byte{0, 1, 63, 64, 126, 127}))
	k := rapid.IntRange(0, 19).Draw(t, "kind")
	// one channel message in eight is the previous one again on another channel (a unison, a
	// layered sound: same data bytes, other channel)
	if k <= 10 && len(prev) > 1 && prev[0] >= 0x80 && prev[0] < 0xF0 && rapid.IntRange(0, 7).Draw(t, "sameOnOtherChannel?") == 0 {
		m := append([]byte{}, prev...)
		m[0] = prev[0]&0xF0 | (prev[0]&0x0F+byte(rapid.IntRange(1, 15).Draw(t, "channelStep")))&0x0F
		return m
	}
	switch {
	case k <= 10: // channel voice
		st := rapid.SampledFrom([]byte{0x80, 0x90, 0xA0, 0xB0, 0xC0, 0xD0, 0xE0}).Draw(t, "chKind") | rapid.ByteRange(0, 15).Draw(t, "ch")
		if len(prev) > 0 && prev[0] >= 0x80 && prev[0] < 0xF0 && rapid.IntRange(0, 2).Draw(t, "sameStatus?") > 0 {
			st = prev[0]
		}
		m := []byte{st}
		for i := 0; i < midiref.DataLen(st); i++ {
			m = append(m, d7.Draw(t, "data"))
		}
		return m
	case k == 11:
		return []byte{0xF1, d7.Draw(t, "mtc")}
	case k == 12:
		return []byte{0xF2, d7.Draw(t, "sppLSB"), d7.Draw(t, "sppMSB")}
	case k == 13:
		return []byte{0xF3, d7.Draw(t, "song")}
	case k == 14:
		return []byte{0xF6}
	case k <= 16: // sysex of total length 2..bufSize
		if bufSize < 2 {
			return []byte{0xF6}
		}
		if bufSize >= 10 && rapid.IntRange(0, 3).Draw(t, "wellKnownSysex?") == 0 {
			// universal sysex messages every device knows (their content resembles other message classes)
			dev := rapid.SampledFrom([]byte{0x7F, 0x00, 0x10}).Draw(t, "sysexDevice")
			return fitting(t, bufSize, WellKnownSysex(dev))
		}
		n := rapid.OneOf(rapid.IntRange(0, min(8, bufSize-2)), rapid.IntRange(0, bufSize-2), rapid.Just(bufSize-2)).Draw(t, "syxPayload")
		m := []byte{0xF0}
		if n <= 16 {
			m = append(m, rapid.SliceOfN(rapid.ByteRange(0, 127), n, n).Draw(t, "syx")...)
		} else {
			a := rapid.ByteRange(0, 127).Draw(t, "syxFill")
			for i := 0; i < n; i++ {
				m = append(m, (a+byte(i))&0x7F)
			}
		}
		return append(m, 0xF7)
	default:
		return []byte{rapid.SampledFrom([]byte{0xF8, 0xFA, 0xFB, 0xFC, 0xFE, 0xFF, 0xF8, 0xFE}).Draw(t, "realtime")}
	}
}

// Items draws 1..maxItems messages with serialisation choices (running-status elision,
// real-time bytes inserted at arbitrary positions).
func Items(t *rapid.T, bufSize int, maxItems int) []midiref.Item {
	var items []midiref.Item
	n := rapid.IntRange(1, maxItems).Draw(t, "nItems")
	if maxItems >= 30 && rapid.IntRange(0, 59).Draw(t, "longStream?") == 0 {
		n = rapid.IntRange(300, 1500).Draw(t, "nItemsLong") // one stream in 60 is long
	}
	var prev []byte
	for i := 0; i < n; i++ {
		it := midiref.Item{Msg: Message(t, prev, bufSize)}
		prev = it.Msg
		it.Elide = rapid.IntRange(0, 3).Draw(t, "elide?") > 0
		if rapid.IntRange(0, 3).Draw(t, "rt?") == 0 {
			k := rapid.IntRange(1, 2).Draw(t, "nRT")
			for j := 0; j < k; j++ {
				it.RT = append(it.RT, midiref.RTInsert{
					Pos:  rapid.IntRange(0, len(it.Msg)).Draw(t, "rtPos"),
					Byte: rapid.SampledFrom([]byte{0xF8, 0xFA, 0xFB, 0xFC, 0xFE, 0xFF, 0xF8, 0xFE}).Draw(t, "rtByte"),
				})
			}
			sort.SliceStable(it.RT, func(a, b int) bool { return it.RT[a].Pos < it.RT[b].Pos })
		}
		items = append(items, it)
	}
	return items
}

// fitting draws one of the messages that fit into bufSize bytes (there is always one).
func fitting(t *rapid.T, bufSize int, all [][]byte) []byte {
	var ok [][]byte
	for _, m := range all {
		if len(m) <= bufSize {
			ok = append(ok, m)
		}
	}
	return append([]byte{}, rapid.SampledFrom(ok).Draw(t, "wellKnownSysex")...)
}

// WellKnownSysex lists universal sysex messages every device knows; their content resembles other
// message classes (time code, transport commands).
func WellKnownSysex(dev byte) [][]byte {
	return [][]byte{
		{0xF0, 0x7F, dev, 0x01, 0x01, 0x01, 0x02, 0x03, 0x04, 0xF7},                   // MTC full frame
		{0xF0, 0x7F, dev, 0x01, 0x02, 0x01, 0x02, 0x03, 0x04, 0xF7},                   // MTC user bits (short form)
		{0xF0, 0x7F, dev, 0x06, 0x01, 0xF7},                                           // MMC stop
		{0xF0, 0x7F, dev, 0x06, 0x02, 0xF7},                                           // MMC play
		{0xF0, 0x7F, dev, 0x06, 0x03, 0xF7},                                           // MMC deferred play
		{0xF0, 0x7F, dev, 0x06, 0x09, 0xF7},                                           // MMC pause
		{0xF0, 0x7F, dev, 0x06, 0x44, 0x06, 0x01, 0x01, 0x02, 0x03, 0x04, 0x00, 0xF7}, // MMC locate
		{0xF0, 0x7E, dev, 0x09, 0x01, 0xF7},                                           // GM system on
		{0xF0, 0x7E, dev, 0x06, 0x01, 0xF7},                                           // identity request
		{0xF0, 0x7F, dev, 0x04, 0x01, 0x00, 0x7F, 0xF7},                               // master volume
		{0xF0, 0x7F, dev, 0x03, 0x01, 0xF7},                                           // MIDI show control-like
		{0xF0, 0x41, 0x10, 0x42, 0x12, 0x40, 0x00, 0x7F, 0x00, 0x41, 0xF7},            // Roland GS reset
		{0xF0, 0x7E, dev, 0x7E, 0xF7}, {0xF0, 0x7E, dev, 0x7F, 0xF7},                  // ACK-like
	}
}

package live

import (
	"gitlab.com/gomidi/midi/v2/drivers"
)

// FakeIn is a deterministic drivers.In of the harness: bytes are fed with exact
// millisecond deltas, decoded by a drivers.Reader, filtered by the listen configuration the
// way a driver has to (active sense / timing clock / sysex only when enabled).
type FakeIn struct {
	open      bool
	rd        *drivers.Reader
	listening bool
	Listens   int
}

func (f *FakeIn) Open() error             { f.open = true; return nil }
func (f *FakeIn) Close() error            { f.open = false; return nil }
func (f *FakeIn) IsOpen() bool            { return f.open }
func (f *FakeIn) Number() int             { return 0 }
func (f *FakeIn) String() string          { return "verif-fake-in" }
func (f *FakeIn) Underlying() interface{} { return nil }

func (f *FakeIn) Listen(onMsg func(msg []byte, milliseconds int32), conf drivers.ListenConfig) (func(), error) {
	if !f.open {
		return nil, drivers.ErrPortClosed
	}
	f.Listens++
	f.listening = true
	f.rd = drivers.NewReader(conf, func(m []byte, ms int32) {
		if !f.listening || len(m) == 0 {
			return
		}
		switch {
		case m[0] == 0xFE && !conf.ActiveSense:
			return
		case m[0] == 0xF8 && !conf.TimeCode:
			return
		case (m[0] == 0xF0 || m[0] == 0xF7) && !conf.SysEx:
			return
		}
		onMsg(m, ms)
	})
	return func() { f.listening = false }, nil
}

// Feed delivers one chunk deltaMs after the previous one.
func (f *FakeIn) Feed(data []byte, deltaMs int32) {
	if f.rd != nil && f.listening {
		f.rd.EachMessage(data, deltaMs)
	}
}

// Package live runs byte streams through the library's live decoder at its two observation
// points: drivers.NewReader(...).EachMessage and midi.ListenTo on a testdrv loopback.
package live

import (
	"fmt"
	"gitlab.com/gomidi/midi/v2/zverif/noise"
	"math"
	"time"

	"gitlab.com/gomidi/midi/v2"
	"gitlab.com/gomidi/midi/v2/drivers"
	"gitlab.com/gomidi/midi/v2/drivers/testdrv"
	"gitlab.com/gomidi/midi/v2/zverif/ev"
	"gitlab.com/gomidi/midi/v2/zverif/hx"
	"gitlab.com/gomidi/midi/v2/zverif/ref/midiref"
	"pgregory.net/rapid"
)

// Chunk is one delivery: Data arrives Delta milliseconds after the previous chunk.
type Chunk struct {
	Data  hx.B
	Delta int32
	// Reopen: before this chunk is sent, the sender closes its out-port and opens it again (only
	// set where a message starts; entry points without ports ignore it)
	Reopen bool `json:",omitempty"`
}

// Obs is one callback invocation.
type Obs struct {
	Msg hx.B
	TS  int32
}

// Opts are the listen options.
type Opts struct {
	ActiveSense, TimeCode, SysEx bool
	BufSize                      uint32
}

var AllOn = Opts{ActiveSense: true, TimeCode: true, SysEx: true}

// Normalise turns a raw frame of drivers.Reader (3 bytes for every channel/system-common
// message, F7,0,0 as the driver-internal "running status cancelled" signal) into the message
// it stands for; ok == false for the internal F7 frame.
func Normalise(frame []byte) (msg []byte, ok bool) {
	if len(frame) == 0 {
		return frame, true
	}
	st := frame[0]
	switch {
	case st == 0xF7:
		return nil, false
	case st == 0xF0 || st >= 0xF8 || st < 0x80:
		return frame, true
	}
	n := midiref.DataLen(st)
	if n >= 0 && len(frame) >= 1+n {
		return frame[:1+n], true
	}
	return frame, true
}

// RunRaw feeds the chunks to a drivers.Reader.
func RunRaw(chunks []Chunk, o Opts) (obs []Obs, failed string) {
	failed = ev.Try(func() {
		cfg := drivers.ListenConfig{ActiveSense: o.ActiveSense, TimeCode: o.TimeCode, SysEx: o.SysEx, SysExBufferSize: o.BufSize}
		// one case in three: the buffer size is configured through the reader's exported field
		// after construction (before any data arrives) instead of through the ListenConfig
		late := variant(chunks, o)%3 == 1
		if late {
			cfg.SysExBufferSize = o.BufSize + 7
		}
		rd := drivers.NewReader(cfg, func(b []byte, ts int32) {
			if m, ok := Normalise(append([]byte{}, b...)); ok {
				obs = append(obs, Obs{m, ts})
			}
		})
		if late {
			rd.SysExBufferSize = o.BufSize
			if o.BufSize == 0 {
				rd.SysExBufferSize = 1024 // the documented default
			}
		}
		for i, c := range chunks {
			if i == 0 {
				noise.Between()
			}
			rd.EachMessage(c.Data, c.Delta)
		}
	})
	return
}

// variant derives a small number from a case, used to pick among equivalent ways of
// configuring a listener (a pure function of the case, so replays are exact).
func variant(chunks []Chunk, o Opts) int {
	v := len(chunks) + int(o.BufSize)
	for _, c := range chunks {
		v += len(c.Data) + int(c.Delta)
	}
	if v < 0 {
		v = -v
	}
	return v
}

// SyncByte is sent first on the loopback; time stamps are reported relative to it because
// the test driver mixes the wall clock into its first time stamp.
const SyncByte = 0xFA

// Loop is one testdrv in/out pair that can be listened to several times in a row.
type Loop struct {
	drv *testdrv.Driver
	in  drivers.In
	out drivers.Out
}

// NewLoop creates a fresh test driver pair.
func NewLoop() *Loop {
	drv := testdrv.New("verif")
	ins, _ := drv.Ins()
	outs, _ := drv.Outs()
	return &Loop{drv: drv, in: ins[0], out: outs[0]}
}

// RunListen sends the chunks through a fresh testdrv loopback into midi.ListenTo.
// The returned time stamps are relative to the sync message (which is not returned).
func RunListen(chunks []Chunk, o Opts) (obs []Obs, failed string) {
	var l *Loop
	if failed = ev.Try(func() { l = NewLoop() }); failed != "" {
		return nil, failed
	}
	return l.Run(chunks, o)
}

// Run listens with the given options, sends the sync message and the chunks, and stops the
// listening again. It may be called repeatedly on the same Loop (listen - stop - listen ...).
func (l *Loop) Run(chunks []Chunk, o Opts) (obs []Obs, failed string) {
	failed = ev.Try(func() {
		drv, in, out := l.drv, l.in, l.out
		var opts []midi.Option
		if o.ActiveSense {
			opts = append(opts, midi.UseActiveSense())
		}
		if o.TimeCode {
			opts = append(opts, midi.UseTimeCode())
		}
		if o.SysEx {
			opts = append(opts, midi.UseSysEx())
		}
		if o.BufSize != 0 {
			opts = append(opts, midi.SysExBufferSize(o.BufSize))
		}
		// the options are independent of each other: any order must configure the same listener
		switch v := variant(chunks, o) % 4; v {
		case 1:
			for i, j := 0, len(opts)-1; i < j; i, j = i+1, j-1 {
				opts[i], opts[j] = opts[j], opts[i]
			}
		case 2, 3:
			if n := len(opts); n > 1 {
				k := v - 1
				opts = append(opts[k%n:len(opts):len(opts)], opts[:k%n]...)
			}
		}
		var all []Obs
		stopped := false
		stop, err := midi.ListenTo(in, func(m midi.Message, ts int32) {
			if stopped {
				panic(fmt.Sprintf("listener called after its stop function returned (% X)", []byte(m)))
			}
			all = append(all, Obs{append([]byte{}, m...), ts})
		}, opts...)
		if err != nil {
			panic(fmt.Sprintf("ListenTo: %v", err))
		}
		defer func() { stop(); stopped = true }()
		if err := out.Open(); err != nil {
			panic(err)
		}
		if err := out.Send([]byte{SyncByte}); err != nil {
			panic(err)
		}
		if len(all) != 1 || len(all[0].Msg) != 1 || all[0].Msg[0] != SyncByte {
			panic(fmt.Sprintf("sync message not delivered as expected: %v", all))
		}
		base := all[0].TS
		noise.Between() // other listeners and decoders come into being while this one is active
		for _, c := range chunks {
			drv.Sleep(time.Duration(c.Delta) * time.Millisecond)
			if c.Reopen {
				// the sender closes its port and opens it again between two messages; the
				// listener, its clock and the wire stay what they are
				out.Close()
				if err := out.Open(); err != nil {
					panic(fmt.Sprintf("out.Open after Close: %v", err))
				}
			}
			if err := out.Send(c.Data); err != nil {
				panic(fmt.Sprintf("Send: %v", err))
			}
		}
		for _, o := range all[1:] {
			obs = append(obs, Obs{o.Msg, o.TS - base})
		}
	})
	return
}

// Chunking draws a partition of stream into delivery chunks (empty chunks allowed).
func Chunking(t *rapid.T, stream []byte, maxDelta int32) []Chunk {
	return chunking(t, stream, maxDelta)
}

// ChunkingToLastStamp is Chunking for receivers whose clock starts at zero: the accumulated
// delivery time may reach the last value of the 32-bit time stamps.
func ChunkingToLastStamp(t *rapid.T, stream []byte, maxDelta int32) []Chunk {
	out := chunking(t, stream, maxDelta)
	// one stream in forty reaches the very end of the range of the 32-bit time stamps: a pause is
	// stretched so that the accumulated delivery time is exactly 2^31-1 ms (or one or two less) at
	// some chunk, everything after it follows without a pause
	if maxDelta >= 5000 && len(out) > 0 && rapid.IntRange(0, 39).Draw(t, "reachLastTimeStamp?") == 0 {
		k := rapid.IntRange(0, len(out)-1).Draw(t, "lastTimeStampAt")
		target := int64(math.MaxInt32) - int64(rapid.SampledFrom([]int{0, 0, 0, 1, 2}).Draw(t, "below"))
		var sum int64
		for i := 0; i < k; i++ {
			sum += int64(out[i].Delta)
		}
		out[k].Delta = int32(target - sum)
		for i := k + 1; i < len(out); i++ {
			out[i].Delta = 0
			if target < math.MaxInt32 && i == k+1 {
				out[i].Delta = int32(math.MaxInt32 - target)
			}
		}
	}
	return out
}

func chunking(t *rapid.T, stream []byte, maxDelta int32) []Chunk {
	var out []Chunk
	mode := rapid.IntRange(0, 4).Draw(t, "chunkMode")
	// a few pauses per stream may be very long (up to 2^28 ms, about three days); the sum of all
	// deltas stays below 2^31 ms, the range of the 32-bit time stamps
	huge, maxHuge := 0, 4
	delta := func() int32 {
		if maxDelta >= 5000 && huge < maxHuge && rapid.IntRange(0, 60).Draw(t, "hugePause?") == 0 {
			huge++
			return int32(rapid.OneOf(rapid.IntRange(2000000, 2200000), rapid.IntRange(0, 1<<28), rapid.Just(1<<28)).Draw(t, "hugeDeltaMs"))
		}
		return int32(rapid.OneOf(rapid.IntRange(0, 3), rapid.IntRange(0, int(maxDelta))).Draw(t, "deltaMs"))
	}
	switch mode {
	case 0: // one call
		return []Chunk{{Data: append([]byte{}, stream...), Delta: delta()}}
	case 1: // one byte per call
		for _, b := range stream {
			out = append(out, Chunk{Data: []byte{b}, Delta: delta()})
		}
		return out
	case 4: // the way a sender works: one call per message (a chunk starts at a status byte that
		// begins a message and ends after an F7), now and then two messages in one call
		start := 0
		flush := func(end int) {
			if end > start {
				ch := Chunk{Data: append([]byte{}, stream[start:end]...), Delta: delta()}
				// chunks begin where a message begins: now and then the sender reconnects there
				if len(out) > 0 && ch.Data[0] >= 0x80 && ch.Data[0] < 0xF8 && ch.Data[0] != 0xF7 {
					ch.Reopen = rapid.IntRange(0, 7).Draw(t, "senderReconnects?") == 0
				}
				out = append(out, ch)
				start = end
			}
		}
		for i, b := range stream {
			if i > start && b >= 0x80 && b < 0xF8 && b != 0xF7 && rapid.IntRange(0, 5).Draw(t, "split?") > 0 {
				flush(i)
			}
			if b == 0xF7 && rapid.IntRange(0, 5).Draw(t, "splitAfterF7?") > 0 {
				flush(i + 1)
			}
		}
		flush(len(stream))
		return out
	}
	pos := 0
	for pos < len(stream) {
		n := rapid.OneOf(rapid.IntRange(0, 3), rapid.IntRange(0, 12)).Draw(t, "chunkLen")
		if pos+n > len(stream) {
			n = len(stream) - pos
		}
		out = append(out, Chunk{Data: append([]byte{}, stream[pos:pos+n]...), Delta: delta()})
		pos += n
	}
	return out
}

// Rechunk applies fixed chunkings (used by enumerations): 0 = one call, 1 = byte-wise,
// k >= 2 = pieces of k bytes.
func Rechunk(stream []byte, mode int) []Chunk {
	switch {
	case mode == 0:
		return []Chunk{{Data: append([]byte{}, stream...), Delta: 1}}
	case mode == 1:
		out := make([]Chunk, 0, len(stream))
		for _, b := range stream {
			out = append(out, Chunk{Data: []byte{b}, Delta: 1})
		}
		return out
	}
	var out []Chunk
	for pos := 0; pos < len(stream); pos += mode {
		end := min(pos+mode, len(stream))
		out = append(out, Chunk{Data: append([]byte{}, stream[pos:end]...), Delta: 1})
	}
	return out
}

// Concat joins the chunk data.
func Concat(chunks []Chunk) []byte {
	var b []byte
	for _, c := range chunks {
		b = append(b, c.Data...)
	}
	return b
}

// Package hx provides a byte slice type that is written as a hex string in JSON.
package hx

import (
	"encoding/hex"
	"encoding/json"
	"strings"
)

// B is a byte slice that marshals to an upper-case hex string.
type B []byte

func (h B) MarshalJSON() ([]byte, error) {
	return json.Marshal(strings.ToUpper(hex.EncodeToString(h)))
}

func (h *B) UnmarshalJSON(b []byte) error {
	var s string
	if err := json.Unmarshal(b, &s); err != nil {
		return err
	}
	d, err := hex.DecodeString(strings.ReplaceAll(s, " ", ""))
	if err != nil {
		return err
	}
	*h = d
	return nil
}

func (h B) String() string { return strings.ToUpper(hex.EncodeToString(h)) }

// Package c10 decides property C10: I/O failures are reported, never swallowed
// (fault enumeration at every byte offset of the output and of the input stream).
package c10

import (
	"bytes"
	"fmt"
	"os"
	"path/filepath"
	"sort"
	"testing"

	"gitlab.com/gomidi/midi/v2/smf"
	"gitlab.com/gomidi/midi/v2/zverif/ev"
	"gitlab.com/gomidi/midi/v2/zverif/faultio"
	"gitlab.com/gomidi/midi/v2/zverif/gen"
	"gitlab.com/gomidi/midi/v2/zverif/ref/smfref"
	"pgregory.net/rapid"
)

func TestMain(m *testing.M) { ev.Main(m) }

// Case: one file (as API history); every fault offset of it is enumerated inside run.
type Case struct {
	API gen.APICase
	// Only restricts the enumeration to one fault (used by shrunk replays); -1 = all offsets
	OnlyOffset int
	OnlyMode   string // "", "write-short", "write-zero", "read-alone", "read-together"
	// Sparse: very large files get a few dozen fault offsets only (start, chunk headers, powers of
	// two up to the size, middle, end)
	Sparse bool `json:",omitempty"`
}

// sparseOffsets: fault offsets for files of a megabyte and more.
func sparseOffsets(file []byte) []int {
	n := len(file)
	set := map[int]bool{0: true, 8: true, 14: true, 15: true, 21: true, 22: true, 23: true, 30: true, n / 2: true, n - 70000: true, n - 4097: true, n - 5: true, n - 1: true, n: true}
	for e := 512; e < n; e *= 2 {
		set[e-1], set[e], set[e+1], set[e+22], set[e+23] = true, true, true, true, true
	}
	for i := 0; i+4 <= n && i < 1<<16; i++ {
		if string(file[i:i+4]) == "MTrk" {
			set[i], set[i+4], set[i+8], set[i+9] = true, true, true, true
		}
	}
	var out []int
	for x := range set {
		if x >= 0 && x <= n {
			out = append(out, x)
		}
	}
	sort.Ints(out)
	return out
}

var counters = ev.New("C10", "fault-points",
	"every (file, direction, mode, byte offset) fault point enumerated by the check 'files' below; non-trivial = fault offset beyond the 14 byte header, i.e. inside a track chunk; fault points of one file are distinct by construction, files are distinct by hash")

func run(c Case) (res ev.Result) {
	if len(c.API.Tracks) == 0 {
		res.Skip = true
		return
	}
	var ref bytes.Buffer
	var refSize int64
	var err error
	if p := ev.Try(func() { refSize, err = gen.BuildLib(c.API).WriteTo(&ref) }); p != "" || err != nil {
		res.Violation = fmt.Sprintf("fault-free WriteTo failed: %v %s", err, p)
		return
	}
	file := ref.Bytes()
	res.Key = file
	res.Nontrivial = len(file) > 14
	res.Classes = []string{fmt.Sprintf("tracks=%d", len(c.API.Tracks))}
	if refSize != int64(len(file)) {
		res.Violation = fmt.Sprintf("fault-free WriteTo: size %d, bytes written %d", refSize, len(file))
		return
	}
	want := func(mode string, k int) bool {
		return (c.OnlyMode == "" || c.OnlyMode == mode) && (c.OnlyOffset < 0 || c.OnlyOffset == k)
	}
	offs := offsets(file)
	if c.Sparse {
		offs = sparseOffsets(file)
		res.Classes = append(res.Classes, "track-body>1MiB")
	}
	var n, nt int64
	perMode := map[string]int64{}
	defer func() {
		counters.AddEnum(n, nt, "")
		for m, k := range perMode {
			counters.Class(m, k)
		}
	}()
	// ---- write direction: budget k bytes, k = 0 .. len(file) (k == len: no fault)
	for _, wm := range []string{"write-short", "write-zero", "write-full-count", "write-transient"} {
		mode := wm
		short := wm == "write-short" || wm == "write-transient"
		for _, k := range offs {
			if !want(mode, k) {
				continue
			}
			n++
			perMode[mode]++
			if k > 14 {
				nt++
			}
			w := &faultio.Writer{Budget: k, Short: short, Full: wm == "write-full-count", Transient: wm == "write-transient", Err: faultio.ErrFor(k)}
			var size int64
			var werr error
			if p := ev.Try(func() { size, werr = gen.BuildLib(c.API).WriteTo(w) }); p != "" {
				res.Violation = fmt.Sprintf("%s fault at offset %d of %d: %s", mode, k, len(file), p)
				return
			}
			if k < len(file) {
				if werr == nil {
					res.Violation = fmt.Sprintf("%s: destination failed after %d of %d bytes but WriteTo returned nil error (size %d, accepted %d)", mode, k, len(file), size, len(w.Accepted))
					return
				}
			} else {
				if werr != nil || size != int64(len(file)) || !bytes.Equal(w.Accepted, file) {
					res.Violation = fmt.Sprintf("%s: no fault (budget %d == file length) but err=%v size=%d accepted=%d", mode, k, werr, size, len(w.Accepted))
					return
				}
			}
			if werr == nil && size != int64(len(w.Accepted)) && !w.Full && !w.Transient {
				res.Violation = fmt.Sprintf("%s: nil error with size %d but %d bytes accepted", mode, size, len(w.Accepted))
				return
			}
		}
	}
	// ---- the file-based write call against a device that accepts nothing (every write fails)
	if c.OnlyMode == "" || c.OnlyMode == "write-file-device-full" {
		if path, cleanup, ok := fullDevice(); ok {
			n++
			nt++
			perMode["write-file-device-full"]++
			var werr error
			p := ev.Try(func() { werr = gen.BuildLib(c.API).WriteFile(path) })
			cleanup()
			if p != "" {
				res.Violation = "write-file-device-full: " + p
				return
			}
			if werr == nil {
				res.Violation = fmt.Sprintf("write-file-device-full: WriteFile to a destination on which every write fails (no space left on device) returned nil for a file of %d bytes", len(file))
				return
			}
		}
	}
	// ---- read direction: sticky non-EOF error at offset k < len(file)
	for _, together := range []bool{false, true} {
		mode := "read-alone"
		if together {
			mode = "read-together"
		}
		for _, k := range offs {
			if !want(mode, k) {
				continue
			}
			n++
			perMode[mode]++
			if k > 14 {
				nt++
			}
			r := &faultio.FailingReader{Data: file, FailAt: k, Together: together, Err: faultio.ErrFor(k + 2)}
			var s *smf.SMF
			var rerr error
			if p := ev.TryTimeout(ev.Watchdog, func() { s, rerr = smf.ReadFrom(r) }); p != "" {
				res.Violation = fmt.Sprintf("%s fault at offset %d of %d: %s", mode, k, len(file), p)
				return
			}
			if k < len(file) && (rerr == nil || s != nil) {
				res.Violation = fmt.Sprintf("%s: source failed with a non-EOF error at offset %d of %d but ReadFrom returned err=%v value=%v", mode, k, len(file), rerr, s != nil)
				return
			}
			// k == len(file): all data was delivered; only "no panic" is required
		}
	}
	return
}

// fullDevice returns a path (a symbolic link in a fresh directory, so that the library's clean-up
// removes the link and not the device) to /dev/full, if this system has a working one.
func fullDevice() (path string, cleanup func(), ok bool) {
	f, err := os.OpenFile("/dev/full", os.O_WRONLY, 0)
	if err != nil {
		return "", nil, false
	}
	_, werr := f.Write([]byte{0})
	f.Close()
	if werr == nil {
		return "", nil, false
	}
	dir, err := os.MkdirTemp("", "verif-c10-")
	if err != nil {
		return "", nil, false
	}
	path = filepath.Join(dir, "full.mid")
	if err := os.Symlink("/dev/full", path); err != nil {
		os.RemoveAll(dir)
		return "", nil, false
	}
	return path, func() { os.RemoveAll(dir) }, true
}

// offsets returns every fault offset 0..len(file) for files up to 1500 bytes; for larger files
// every offset within 40 bytes of the start, of every chunk header and of the end, around the
// usual buffer thresholds, and a stride over the rest.
func offsets(file []byte) []int {
	n := len(file)
	var ranges [][2]int
	if n > 1500 {
		if dec, err := smfref.Decode(file); err == nil {
			ranges = dec.Ranges
		}
	}
	if n <= 1500 {
		out := make([]int, 0, n+1)
		for i := 0; i <= n; i++ {
			out = append(out, i)
		}
		return out
	}
	set := map[int]bool{}
	add := func(x int) {
		if x >= 0 && x <= n {
			set[x] = true
		}
	}
	for i := 0; i <= 40; i++ {
		add(i)
		add(n - i)
	}
	for i := 0; i+4 <= n; i++ {
		if string(file[i:i+4]) == "MTrk" {
			for d := -12; d <= 40; d++ {
				add(i + d)
			}
			for _, edge := range []int{512, 4096, 8192, 32768, 65536} {
				for d := -2; d <= 10; d++ {
					add(i + 8 + edge + d)
					add(i + edge + d)
				}
			}
		}
	}
	for _, edge := range []int{512, 4096, 8192, 32768, 65536} {
		for d := -2; d <= 2; d++ {
			add(edge + d)
		}
	}
	// every field of the file (chunk magic, lengths, payloads): around its first and last byte
	for _, r := range ranges {
		for d := -2; d <= 2; d++ {
			add(r[0] + d)
			add(r[1] + d)
		}
	}
	for i := 0; i <= n; i += n/150 + 1 {
		add(i)
	}
	out := make([]int, 0, len(set))
	for x := range set {
		out = append(out, x)
	}
	sort.Ints(out)
	return out
}

var files = ev.NewCheck("C10", "files",
	"rapid: files from the C01 API-history generator (1..5 tracks, payloads <= 300 bytes, in one case of twelve up to 70000 bytes with a forced payload of 4097 / 65536 / 65537 / 70000 bytes in the last track; files > 1500 bytes use every offset near the start, every chunk header, the buffer thresholds and the end plus a stride instead of every offset); per file a write fault at EVERY byte offset (short write (k,err), refused write (0,err), deferred failure (len(p),err) and a transient failure (one short write with an error, later writes accepted again)) and a sticky non-EOF read fault at EVERY byte offset (error alone after k bytes, and together with the last bytes); once per file SMF.WriteFile through a symbolic link to /dev/full (every write fails; skipped where that device does not exist); the error value of a fault rotates with the offset over well-known values (injected, io.ErrShortWrite, io.ErrUnexpectedEOF, io.ErrClosedPipe, io.ErrNoProgress, deadline exceeded, closed, ENOSPC, EPIPE, EIO, io.ErrShortBuffer; never io.EOF); oracle: fault before the end => non-nil error (read: and no value), no fault => nil error, size == bytes accepted == file length; the per-fault-point counts are in part 'fault-points'",
	func(t *rapid.T) Case {
		mp := 300
		if rapid.IntRange(0, 11).Draw(t, "bigPayloads?") == 0 {
			mp = 70000 // track bodies beyond the 4 KiB / 64 KiB thresholds of buffered writers and readers
		}
		c := Case{API: gen.API(t, gen.APIOpts{MaxTracks: 5, MaxOps: 6, MaxPayload: mp, MaxDelta: 0x0FFFFFFF}), OnlyOffset: -1}
		if mp > 300 {
			// make sure a payload beyond the thresholds really is there, in the last track
			n := rapid.SampledFrom([]int{4097, 65536, 65537, 70000}).Draw(t, "forcedPayload")
			var msg []byte
			if rapid.Bool().Draw(t, "forcedIsMeta") {
				msg = smf.MetaText(string(gen.Payload(t, n, "forced")))
			} else {
				msg = append(append([]byte{0xF0}, gen.Payload(t, n-1, "forced")...), 0xF7)
			}
			last := &c.API.Tracks[len(c.API.Tracks)-1]
			last.Ops = append([]gen.Op{{Kind: "add", Delta: 1, Msgs: []ev.Hex{msg}}}, last.Ops...)
		}
		return c
	}, run)

func TestPropFiles(t *testing.T) { files.Rapid(t, 100, 3000) }

var bigTracks = ev.NewCheck("C10", "big-tracks",
	"enumeration: files whose last track body exceeds one MiB (one payload of 1.2 MiB; 40 payloads of 55 KiB; quick: the first only on two shards) with write faults (all four kinds) and read faults (both kinds) at a few dozen offsets: start, chunk headers, around every power of two up to the size, middle, end; same oracle as 'files'",
	nil, run)

func TestEnumBigTracks(t *testing.T) {
	bigTracks.R.Exhaustive = true
	mk := func(payloads, size int) Case {
		var ops []gen.Op
		for i := 0; i < payloads; i++ {
			m := make([]byte, size)
			for j := range m {
				m[j] = byte(j*7+i) & 0x7F
			}
			m[0], m[size-1] = 0xF0, 0xF7
			ops = append(ops, gen.Op{Kind: "add", Delta: uint32(i), Msgs: []ev.Hex{m}}, gen.Op{Kind: "add", Delta: 1, Msgs: []ev.Hex{{0x90, 60, byte(1 + i%100)}}})
		}
		small := gen.TrackOps{Ops: []gen.Op{{Kind: "add", Delta: 0, Msgs: []ev.Hex{{0xC0, 5}}}}}
		return Case{API: gen.APICase{Ctor: "NewSMF1", Tracks: []gen.TrackOps{small, {Ops: ops}}}, OnlyOffset: -1, Sparse: true}
	}
	cases := []Case{mk(1, 1200000), mk(40, 55000)}
	for i, c := range cases {
		if i%ev.Shards() != ev.Shard() {
			continue
		}
		bigTracks.One(t, c)
	}
}

func TestReplay(t *testing.T) { ev.ReplayAll(t) }

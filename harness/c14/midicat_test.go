package c14

import (
	"bytes"
	"fmt"
	"strings"
	"sync"
	"testing"
	"time"

	"gitlab.com/gomidi/midi/v2"
	"gitlab.com/gomidi/midi/v2/drivers"
	"gitlab.com/gomidi/midi/v2/zverif/cable"
	"gitlab.com/gomidi/midi/v2/zverif/ev"
	"gitlab.com/gomidi/midi/v2/zverif/live"
	"pgregory.net/rapid"
)

// The same metamorphic relation on the process-backed driver, whose in-port has its own copy
// of the option filter (drivers/midicatdrv/in.go). One injected line is one whole message.

type McCase struct {
	Msgs []ev.Hex
}

var sentinel = []byte{0x9F, 0x7F, 0x7F}

func runMc(c McCase) (res ev.Result) {
	has := map[byte]bool{}
	for _, m := range c.Msgs {
		has[m[0]] = true
	}
	res.Nontrivial = has[0xFE] && has[0xF8] && has[0xF0]
	env, err := cable.New()
	if err != nil {
		panic(err)
	}
	defer env.Close()
	in := env.Ins[0]
	cab, err := env.OpenIn(0)
	if err != nil {
		panic(err)
	}
	defer cab.Close()
	observe := func(o live.Opts) ([]live.Obs, string) {
		var mu sync.Mutex
		var got []live.Obs
		done := make(chan bool, 1)
		var opts []midi.Option
		if o.ActiveSense {
			opts = append(opts, midi.UseActiveSense())
		}
		if o.TimeCode {
			opts = append(opts, midi.UseTimeCode())
		}
		if o.SysEx {
			opts = append(opts, midi.UseSysEx())
		}
		var stop func()
		var lerr error
		if p := ev.TryTimeout(20*time.Second, func() {
			stop, lerr = midi.ListenTo(in, func(m midi.Message, ts int32) {
				mu.Lock()
				defer mu.Unlock()
				if bytes.Equal(m, sentinel) {
					select {
					case done <- true:
					default:
					}
					return
				}
				got = append(got, live.Obs{Msg: append([]byte{}, m...), TS: ts})
			}, opts...)
		}); p != "" || lerr != nil {
			return nil, fmt.Sprintf("ListenTo: %v %s", lerr, p)
		}
		// a second Listen while this one is running is a misuse that the driver rejects with an
		// error; a rejected call must not change what the running listener receives
		if stop2, err2 := in.Listen(func([]byte, int32) {}, drivers.ListenConfig{ActiveSense: !o.ActiveSense, TimeCode: !o.TimeCode, SysEx: !o.SysEx}); err2 == nil && stop2 != nil {
			return nil, "skip: the driver accepted a second listener"
		}
		for i, m := range c.Msgs {
			cab.Inject(int32(10+i), m)
		}
		cab.Inject(0, sentinel)
		select {
		case <-done:
		case <-time.After(60 * time.Second):
			return nil, "the sentinel message did not arrive within 60 s"
		}
		if p := ev.TryTimeout(20*time.Second, stop); p != "" {
			return nil, "stop: " + p
		}
		mu.Lock()
		defer mu.Unlock()
		return got, ""
	}
	base, failed := observe(live.AllOn)
	if strings.HasPrefix(failed, "skip:") {
		res.Skip = true
		return
	}
	if failed != "" {
		res.Violation = "all options on: " + failed
		return
	}
	if len(base) != len(c.Msgs) {
		res.Violation = fmt.Sprintf("with all options on %d of %d injected messages arrived", len(base), len(c.Msgs))
		return
	}
	for mask := 0; mask < 7; mask++ {
		o := live.Opts{ActiveSense: mask&1 != 0, TimeCode: mask&2 != 0, SysEx: mask&4 != 0}
		got, failed := observe(o)
		name := fmt.Sprintf("midicatdrv options{activeSense:%v timingClock:%v sysex:%v}", o.ActiveSense, o.TimeCode, o.SysEx)
		if failed != "" {
			res.Violation = name + ": " + failed
			return
		}
		var want []live.Obs
		for _, b := range base {
			if !filtered(b.Msg, o) {
				want = append(want, b)
			}
		}
		for i := 0; i < len(got) || i < len(want); i++ {
			switch {
			case i >= len(got):
				res.Violation = fmt.Sprintf("%s: message %d (% X @%d) of the all-options run is missing although its class is not switched off", name, i, []byte(want[i].Msg), want[i].TS)
				return
			case i >= len(want):
				res.Violation = fmt.Sprintf("%s: extra message %d (% X @%d)", name, i, []byte(got[i].Msg), got[i].TS)
				return
			case !bytes.Equal(got[i].Msg, want[i].Msg) || got[i].TS != want[i].TS:
				res.Violation = fmt.Sprintf("%s: message %d is % X @%d, projection of the all-options run has % X @%d", name, i, []byte(got[i].Msg), got[i].TS, []byte(want[i].Msg), want[i].TS)
				return
			}
		}
	}
	return
}

var mcOptions = ev.NewCheck("C14", "midicatdrv-option-sets",
	"rapid: 3..25 whole messages (channel voice of 2 and 3 bytes, active sense, timing clock, other real-time, sysex incl. the universal ones (MTC full frame, MMC commands, GM on, identity request, master volume), system common) injected line by line into the process-backed driver running against the stand-in helper; midi.ListenTo under all 8 option sets on the same open port, each time followed by a second Listen call with the opposite options that the driver rejects (a rejected call must change nothing); oracle (metamorphic) as in 'option-sets': run(opts) == projection of run(all on), content, order and time stamps; non-trivial = active sense, timing clock and sysex all present; distinct by case hash",
	func(t *rapid.T) McCase {
		var c McCase
		n := rapid.IntRange(3, 25).Draw(t, "n")
		for i := 0; i < n; i++ {
			var m []byte
			switch rapid.IntRange(0, 7).Draw(t, "kind") {
			case 0:
				m = []byte{0xFE}
			case 1:
				m = []byte{0xF8}
			case 2:
				m = append(append([]byte{0xF0}, rapid.SliceOfN(rapid.ByteRange(0, 127), 1, 8).Draw(t, "syx")...), 0xF7)
				if rapid.Bool().Draw(t, "wellKnownSysex?") {
					m = live.Message(t, nil, 1024)
					for tries := 0; m[0] != 0xF0 && tries < 40; tries++ { // a sysex of the shared generator (incl. its dictionary of universal messages)
						m = live.Message(t, nil, 64)
					}
				}
			case 3:
				m = []byte{rapid.SampledFrom([]byte{0xFA, 0xFB, 0xFC}).Draw(t, "rt")}
			case 4:
				m = []byte{0xC0 | rapid.ByteRange(0, 14).Draw(t, "ch"), rapid.ByteRange(0, 127).Draw(t, "p")}
			case 5:
				m = []byte{0xF2, rapid.ByteRange(0, 127).Draw(t, "l"), rapid.ByteRange(0, 127).Draw(t, "m")}
			default:
				m = []byte{0x90 | rapid.ByteRange(0, 14).Draw(t, "ch"), rapid.ByteRange(0, 127).Draw(t, "k"), rapid.ByteRange(0, 127).Draw(t, "v")}
			}
			c.Msgs = append(c.Msgs, m)
		}
		return c
	}, runMc)

func TestPropMidicatOptionSets(t *testing.T) {
	if ev.Shard() >= 2 && !ev.Thorough() {
		return // process spawning: two shards are enough in the quick tier
	}
	// first a fixed case: every universal sysex message between messages of the other classes
	var dict McCase
	for i, m := range live.WellKnownSysex(0x7F) {
		dict.Msgs = append(dict.Msgs, m, [][]byte{{0xFE}, {0xF8}, {0x90, 60, 100}, {0xFA}, {0xC1, 5}}[i%5])
	}
	if ev.Shard() == 0 {
		mcOptions.One(t, dict)
	}
	mcOptions.Rapid(t, 4, 25)
}

// Package c14 decides property C14: listen options filter exactly their message class and
// nothing else (metamorphic: every option set vs. the projection of the all-options run).
package c14

import (
	"bytes"
	"fmt"
	"testing"

	"gitlab.com/gomidi/midi/v2/zverif/ev"
	"gitlab.com/gomidi/midi/v2/zverif/live"
	"gitlab.com/gomidi/midi/v2/zverif/ref/midiref"
	"pgregory.net/rapid"
)

func TestMain(m *testing.M) { ev.Main(m) }

type Case struct {
	Items   []midiref.Item
	BufSize uint32
	Chunks  []live.Chunk
	// SameDriver: all option sets are listened to one after the other on the same driver pair
	// (listen - stop - listen ...) instead of on fresh pairs
	SameDriver bool `json:",omitempty"`
	// Order: in same-driver mode the order in which the 8 option sets are listened to (bit 0 active
	// sense, bit 1 timing clock, bit 2 sysex; 7 = all on, the reference run)
	Order []int `json:",omitempty"`
	// Decoy: in same-driver mode a first listening with other options (and another buffer size)
	Decoy *live.Opts `json:",omitempty"`
}

func filtered(m []byte, o live.Opts) bool {
	if len(m) == 0 {
		return false
	}
	switch {
	case m[0] == 0xFE:
		return !o.ActiveSense
	case m[0] == 0xF8:
		return !o.TimeCode
	case m[0] == 0xF0:
		return !o.SysEx
	}
	return false
}

func run(c Case) (res ev.Result) {
	if len(c.Items) == 0 {
		res.Skip = true
		return
	}
	stream := midiref.Serialise(c.Items)
	if !bytes.Equal(stream, live.Concat(c.Chunks)) {
		c.Chunks = live.Rechunk(stream, 0)
	}
	runListen := live.RunListen
	if c.SameDriver {
		var loop *live.Loop
		if p := ev.Try(func() { loop = live.NewLoop() }); p != "" {
			res.Violation = p
			return
		}
		runListen = loop.Run
		res.Classes = append(res.Classes, "same-driver-listen-stop-listen")
	}
	if c.SameDriver && c.Decoy != nil {
		if _, failed := runListen([]live.Chunk{{Data: []byte{0xF0, 0x01, 0x02, 0x03, 0x04, 0x05, 0xF7, 0xFE, 0xF8, 0x90, 0x01, 0x02}, Delta: 1}}, *c.Decoy); failed != "" {
			res.Violation = "first listening: " + failed
			return
		}
	}
	order := []int{7, 0, 1, 2, 3, 4, 5, 6}
	if c.SameDriver && len(c.Order) == 8 {
		order = c.Order
	}
	results := map[int][]live.Obs{}
	for _, mask := range order {
		o := live.Opts{ActiveSense: mask&1 != 0, TimeCode: mask&2 != 0, SysEx: mask&4 != 0, BufSize: c.BufSize}
		got, failed := runListen(c.Chunks, o)
		if failed != "" {
			res.Violation = fmt.Sprintf("options %03b: %s", mask, failed)
			return
		}
		results[mask] = got
	}
	base := results[7]
	// classes / non-trivial: every filterable class present, and a channel message under
	// running status directly after a filtered message
	has := map[byte]bool{}
	for _, o := range base {
		if len(o.Msg) > 0 {
			has[o.Msg[0]] = true
		}
	}
	el := midiref.Elided(c.Items)
	afterFiltered := false
	for i := 1; i < len(c.Items); i++ {
		prev := c.Items[i-1]
		p0 := prev.Msg[0]
		if len(prev.RT) > 0 {
			p0 = prev.RT[len(prev.RT)-1].Byte
		}
		if el[i] && (p0 == 0xFE || p0 == 0xF8) {
			afterFiltered = true
		}
	}
	for _, it := range c.Items {
		for _, rt := range it.RT {
			if (rt.Byte == 0xF8 || rt.Byte == 0xFE) && rt.Pos > 0 && rt.Pos < len(it.Msg) {
				res.Classes = append(res.Classes, "filtered-byte-inside-message")
				afterFiltered = afterFiltered || it.Msg[0] < 0xF0
				break
			}
		}
	}
	if has[0xFE] {
		res.Classes = append(res.Classes, "has-active-sense")
	}
	if has[0xF8] {
		res.Classes = append(res.Classes, "has-timing-clock")
	}
	if has[0xF0] {
		res.Classes = append(res.Classes, "has-sysex")
	}
	if afterFiltered {
		res.Classes = append(res.Classes, "running-status-around-filtered")
	}
	res.Nontrivial = has[0xFE] && has[0xF8] && has[0xF0] && afterFiltered
	// with all options on nothing may be missing either (the sender's messages are known)
	if want := midiref.Expected(c.Items); len(base) != len(want) {
		res.Violation = fmt.Sprintf("with all options on %d messages arrive, %d were sent%s", len(base), len(want), map[bool]string{true: " (listening again on the same port)", false: ""}[c.SameDriver])
		return
	}
	for mask := 0; mask < 7; mask++ {
		o := live.Opts{ActiveSense: mask&1 != 0, TimeCode: mask&2 != 0, SysEx: mask&4 != 0, BufSize: c.BufSize}
		got := results[mask]
		name := fmt.Sprintf("options{activeSense:%v timingClock:%v sysex:%v}", o.ActiveSense, o.TimeCode, o.SysEx)
		if c.SameDriver {
			name += " (listening again on the same port after stop)"
		}
		var want []live.Obs
		for _, b := range base {
			if !filtered(b.Msg, o) {
				want = append(want, b)
			}
		}
		for i := 0; i < len(got) || i < len(want); i++ {
			switch {
			case i >= len(got):
				res.Violation = fmt.Sprintf("%s: message %d (% X @%d) is delivered with all options on but missing here although its class is not switched off", name, i, []byte(want[i].Msg), want[i].TS)
				return
			case i >= len(want):
				res.Violation = fmt.Sprintf("%s: extra message %d (% X @%d) that is not in the projection of the all-options run", name, i, []byte(got[i].Msg), got[i].TS)
				return
			case !bytes.Equal(got[i].Msg, want[i].Msg) || got[i].TS != want[i].TS:
				res.Violation = fmt.Sprintf("%s: message %d is % X @%d, projection of the all-options run has % X @%d", name, i, []byte(got[i].Msg), got[i].TS, []byte(want[i].Msg), want[i].TS)
				return
			}
		}
	}
	return
}

func genCase(t *rapid.T) Case {
	var c Case
	c.BufSize = uint32(rapid.SampledFrom([]int{0, 0, 4, 16, 64}).Draw(t, "bufSize"))
	buf := int(c.BufSize)
	if buf == 0 {
		buf = 1024
	}
	c.Items = live.Items(t, buf, 30)
	// extra density of the filterable classes
	extra := rapid.IntRange(0, 6).Draw(t, "nExtra")
	for i := 0; i < extra; i++ {
		pos := rapid.IntRange(0, len(c.Items)).Draw(t, "extraPos")
		var m []byte
		switch rapid.IntRange(0, 2).Draw(t, "extraKind") {
		case 0:
			m = []byte{0xF8}
		case 1:
			m = []byte{0xFE}
		default:
			m = append(append([]byte{0xF0}, rapid.SliceOfN(rapid.ByteRange(0, 127), 0, min(buf-2, 6)).Draw(t, "extraSyx")...), 0xF7)
		}
		c.Items = append(c.Items[:pos:pos], append([]midiref.Item{{Msg: m}}, c.Items[pos:]...)...)
	}
	c.Chunks = live.ChunkingToLastStamp(t, midiref.Serialise(c.Items), 5000)
	c.SameDriver = rapid.Bool().Draw(t, "sameDriver")
	if c.SameDriver {
		c.Order = rapid.Permutation([]int{0, 1, 2, 3, 4, 5, 6, 7}).Draw(t, "order")
		if rapid.Bool().Draw(t, "decoy") {
			c.Decoy = &live.Opts{ActiveSense: rapid.Bool().Draw(t, "dAS"), TimeCode: rapid.Bool().Draw(t, "dTC"), SysEx: rapid.Bool().Draw(t, "dSX"),
				BufSize: uint32(rapid.SampledFrom([]int{0, 3, 5, 8}).Draw(t, "dBuf"))}
		}
	}
	return c
}

var options = ev.NewCheck("C14", "option-sets",
	"rapid: C04 streams (1..30 messages, one in 60 has 300..1500) and chunkings with extra F8 / FE / sysex density; each stream is run under all 8 combinations, either on fresh testdrv loopbacks or one after the other on the same port (listen - stop - listen again, in a drawn order and optionally after a first listening with other options and another sysex buffer size), of UseActiveSense / UseTimeCode / UseSysEx; oracle (metamorphic): run(opts) == run(all on) minus the classes whose option is off, equal in content, order and time stamp (relative to a sync message); non-trivial = stream has active sense, timing clock and sysex and a channel message under running status next to (or around) a filtered byte; distinct by case hash",
	genCase, run)

func TestPropOptionSets(t *testing.T) { options.Rapid(t, 1000, 30000) }

func TestReplay(t *testing.T) { ev.ReplayAll(t) }

package c14

import (
	"bytes"
	"fmt"
	"testing"

	"gitlab.com/gomidi/midi/v2/zverif/ev"
	"gitlab.com/gomidi/midi/v2/zverif/live"
	"pgregory.net/rapid"
)

// The statement of C14 is not limited to well-formed streams; this check applies the same
// metamorphic relation to arbitrary byte streams (illegal running-status elisions after a
// sysex or a real-time byte, unterminated sysex, stray data), where the decoder state must
// not depend on the options either.

type RawCase struct {
	Chunks  []live.Chunk
	BufSize uint32
	// SameDriver: the option sets are listened to one after the other on the same driver pair
	SameDriver bool `json:",omitempty"`
}

func runRaw(c RawCase) (res ev.Result) {
	runListen := live.RunListen
	if c.SameDriver {
		var loop *live.Loop
		if p := ev.Try(func() { loop = live.NewLoop() }); p != "" {
			res.Skip = true
			return
		}
		runListen = loop.Run
		res.Classes = append(res.Classes, "same-driver-listen-stop-listen")
	}
	all := live.AllOn
	all.BufSize = c.BufSize
	base, failed := runListen(c.Chunks, all)
	if failed != "" {
		res.Skip = true // crashes on arbitrary bytes are C06's business
		return
	}
	has := map[byte]bool{}
	for _, o := range base {
		if len(o.Msg) > 0 {
			has[o.Msg[0]] = true
		}
	}
	res.Nontrivial = has[0xF0] && (has[0xF8] || has[0xFE])
	res.Key = append([]byte{byte(c.BufSize)}, live.Concat(c.Chunks)...)
	for mask := 0; mask < 7; mask++ {
		o := live.Opts{ActiveSense: mask&1 != 0, TimeCode: mask&2 != 0, SysEx: mask&4 != 0, BufSize: c.BufSize}
		got, failed := runListen(c.Chunks, o)
		name := fmt.Sprintf("options{activeSense:%v timingClock:%v sysex:%v}", o.ActiveSense, o.TimeCode, o.SysEx)
		if failed != "" {
			res.Violation = name + ": " + failed
			return
		}
		var want []live.Obs
		for _, b := range base {
			if !filtered(b.Msg, o) {
				want = append(want, b)
			}
		}
		for i := 0; i < len(got) || i < len(want); i++ {
			switch {
			case i >= len(got):
				res.Violation = fmt.Sprintf("%s: message %d (% X @%d) is delivered with all options on but missing here although its class is not switched off; stream % X", name, i, []byte(want[i].Msg), want[i].TS, clip(live.Concat(c.Chunks)))
				return
			case i >= len(want):
				res.Violation = fmt.Sprintf("%s: extra message %d (% X @%d) that no listener with all options on receives; stream % X", name, i, []byte(got[i].Msg), got[i].TS, clip(live.Concat(c.Chunks)))
				return
			case !bytes.Equal(got[i].Msg, want[i].Msg) || got[i].TS != want[i].TS:
				res.Violation = fmt.Sprintf("%s: message %d is % X @%d, projection of the all-options run has % X @%d; stream % X", name, i, []byte(got[i].Msg), got[i].TS, []byte(want[i].Msg), want[i].TS, clip(live.Concat(c.Chunks)))
				return
			}
		}
	}
	return
}

func clip(b []byte) []byte {
	if len(b) > 40 {
		return b[:40]
	}
	return b
}

var arbitrary = ev.NewCheck("C14", "option-sets-arbitrary-streams",
	"rapid: arbitrary byte streams built from segments (channel messages with and without status byte, sysex terminated or not, active sense / timing clock / other real-time bytes anywhere, system common, undefined bytes, random bytes), buffer sizes 4/16/1024, chunked arbitrarily, on fresh driver pairs or one listening after the other on the same port (a new listening must not see decoder state or bytes from before it); same metamorphic oracle as 'option-sets' (the statement is not limited to well-formed streams); non-trivial = the all-options run contains a sysex and a filterable real-time message; distinct by stream",
	func(t *rapid.T) RawCase {
		var c RawCase
		c.BufSize = uint32(rapid.SampledFrom([]int{0, 0, 4, 16}).Draw(t, "bufSize"))
		var s []byte
		n := rapid.IntRange(2, 25).Draw(t, "nSegments")
		for i := 0; i < n; i++ {
			switch rapid.IntRange(0, 8).Draw(t, "segment") {
			case 0:
				st := rapid.ByteRange(0x80, 0xEF).Draw(t, "status")
				s = append(s, st)
				s = append(s, rapid.SliceOfN(rapid.ByteRange(0, 127), 0, 5).Draw(t, "data")...)
			case 1: // data bytes without a status byte of their own
				s = append(s, rapid.SliceOfN(rapid.ByteRange(0, 127), 1, 4).Draw(t, "bareData")...)
			case 2, 3:
				s = append(s, 0xF0)
				s = append(s, rapid.SliceOfN(rapid.ByteRange(0, 127), 0, 20).Draw(t, "syx")...)
				if rapid.IntRange(0, 4).Draw(t, "terminated") > 0 {
					s = append(s, 0xF7)
				}
			case 4:
				s = append(s, rapid.SampledFrom([]byte{0xF8, 0xFE, 0xF8, 0xFE, 0xFA, 0xFC, 0xFF}).Draw(t, "rt"))
			case 5:
				s = append(s, rapid.SampledFrom([][]byte{{0xF1, 0x01}, {0xF2, 0x01, 0x02}, {0xF3, 0x05}, {0xF6}, {0xF4}, {0xF5}, {0xF7}}).Draw(t, "sys")...)
			case 6:
				s = append(s, rapid.SliceOfN(rapid.Byte(), 1, 6).Draw(t, "random")...)
			default:
				st := rapid.SampledFrom([]byte{0x92, 0xB1, 0xC3, 0xE0}).Draw(t, "st")
				s = append(s, st, 0x41)
				if st&0xF0 != 0xC0 {
					s = append(s, 0x42)
				}
			}
		}
		c.Chunks = live.Chunking(t, s, 300)
		c.SameDriver = rapid.Bool().Draw(t, "sameDriver")
		return c
	}, runRaw)

func TestPropArbitraryStreams(t *testing.T) { arbitrary.Rapid(t, 1500, 20000) }

// evmerge merges the partial evidence files of one property run into one JSON document on
// stdout: per check the summed counts, the union of the distinct non-trivial hashes, merged
// class histograms and a few samples.
package main

import (
	"encoding/binary"
	"encoding/json"
	"fmt"
	"os"
	"path/filepath"
	"sort"
	"strings"
)

type partial struct {
	Property    string            `json:"property"`
	Check       string            `json:"check"`
	Shard       int               `json:"shard"`
	Rule        string            `json:"rule"`
	Exhaustive  bool              `json:"exhaustive"`
	Evaluations int64             `json:"evaluations"`
	NontrivEnum int64             `json:"nontrivial_enum"`
	Hashes      int               `json:"hashes"`
	Saturated   bool              `json:"saturated"`
	Classes     map[string]int64  `json:"classes"`
	Samples     []json.RawMessage `json:"samples"`
	Violations  int               `json:"violations"`
	WallS       float64           `json:"wall_s"`
	Notes       []string          `json:"notes,omitempty"`
}

type merged struct {
	Check              string            `json:"check"`
	Rule               string            `json:"rule"`
	Exhaustive         bool              `json:"exhaustive"`
	Shards             int               `json:"shards"`
	Evaluations        int64             `json:"evaluations"`
	DistinctNontrivial int64             `json:"distinct_nontrivial"`
	HashSetSaturated   bool              `json:"hash_set_saturated"`
	Classes            map[string]int64  `json:"classes"`
	Samples            []json.RawMessage `json:"samples"`
	Violations         int               `json:"violations"`
	Notes              []string          `json:"notes,omitempty"`
}

func main() {
	dir := os.Args[1]
	files, _ := filepath.Glob(filepath.Join(dir, "*.json"))
	sort.Strings(files)
	byCheck := map[string]*merged{}
	hashes := map[string]map[uint64]struct{}{}
	var order []string
	for _, f := range files {
		b, err := os.ReadFile(f)
		if err != nil {
			continue
		}
		var p partial
		if json.Unmarshal(b, &p) != nil {
			continue
		}
		m := byCheck[p.Check]
		if m == nil {
			m = &merged{Check: p.Check, Rule: p.Rule, Exhaustive: true, Classes: map[string]int64{}}
			byCheck[p.Check] = m
			hashes[p.Check] = map[uint64]struct{}{}
			order = append(order, p.Check)
		}
		m.Shards++
		m.Evaluations += p.Evaluations
		m.DistinctNontrivial += p.NontrivEnum
		m.Exhaustive = m.Exhaustive && p.Exhaustive
		m.HashSetSaturated = m.HashSetSaturated || p.Saturated
		m.Violations += p.Violations
		for k, v := range p.Classes {
			m.Classes[k] += v
		}
		for _, s := range p.Samples {
			if len(m.Samples) < 6 {
				m.Samples = append(m.Samples, s)
			}
		}
		for _, n := range p.Notes {
			dup := false
			for _, o := range m.Notes {
				dup = dup || o == n
			}
			if !dup {
				m.Notes = append(m.Notes, n)
			}
		}
		hb, err := os.ReadFile(strings.TrimSuffix(f, ".json") + ".hashes")
		if err == nil {
			hs := hashes[p.Check]
			for i := 0; i+8 <= len(hb); i += 8 {
				hs[binary.LittleEndian.Uint64(hb[i:])] = struct{}{}
			}
		}
	}
	var out []*merged
	for _, c := range order {
		m := byCheck[c]
		m.DistinctNontrivial += int64(len(hashes[c]))
		out = append(out, m)
	}
	b, _ := json.MarshalIndent(out, "", " ")
	fmt.Println(string(b))
}

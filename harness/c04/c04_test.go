// Package c04 decides property C04: live MIDI byte streams are decoded into exactly the
// messages sent.
package c04

import (
	"bytes"
	"fmt"
	"testing"

	"gitlab.com/gomidi/midi/v2/zverif/ev"
	"gitlab.com/gomidi/midi/v2/zverif/live"
	"gitlab.com/gomidi/midi/v2/zverif/ref/midiref"
	"pgregory.net/rapid"
)

func TestMain(m *testing.M) { ev.Main(m) }

type Case struct {
	Items   []midiref.Item
	BufSize uint32 // 0 = default 1024
	Chunks  []live.Chunk
	// Decoy: an earlier listening on the same port with these (other) options, stopped before
	// the listening under test starts (listen - stop - listen again)
	Decoy *live.Opts `json:",omitempty"`
}

func genCase(t *rapid.T) Case {
	var c Case
	c.BufSize = uint32(rapid.SampledFrom([]int{0, 0, 1, 2, 3, 4, 5, 8, 16, 33, 64}).Draw(t, "bufSize"))
	buf := int(c.BufSize)
	if buf == 0 {
		buf = 1024
	}
	if rapid.IntRange(0, 400).Draw(t, "hugeBuffer?") == 0 {
		// a buffer far above the default and one sysex far above 1024 bytes that fits into it
		c.BufSize = rapid.SampledFrom([]uint32{1<<20 + 7, 1 << 21, 1<<24 + 9, 1 << 25}).Draw(t, "hugeBufSize")
		c.Items = live.Items(t, 1024, 8)
		n := rapid.SampledFrom([]int{1025, 2000, 70000, 1<<20 + 1, 1<<20 + 5}).Draw(t, "hugeSysexLen")
		big := make([]byte, n)
		for i := range big {
			big[i] = byte(i*3) & 0x7F
		}
		big[0], big[n-1] = 0xF0, 0xF7
		pos := rapid.IntRange(0, len(c.Items)).Draw(t, "hugeSysexPos")
		c.Items = append(c.Items[:pos:pos], append([]midiref.Item{{Msg: big}}, c.Items[pos:]...)...)
		c.Chunks = live.Rechunk(midiref.Serialise(c.Items), rapid.SampledFrom([]int{0, 65536, 4099}).Draw(t, "hugeChunking"))
		return c
	}
	c.Items = live.Items(t, buf, 40)
	c.Chunks = live.ChunkingToLastStamp(t, midiref.Serialise(c.Items), 5000)
	if rapid.IntRange(0, 3).Draw(t, "earlierListening?") == 0 {
		c.Decoy = &live.Opts{ActiveSense: rapid.Bool().Draw(t, "dAS"), TimeCode: rapid.Bool().Draw(t, "dTC"), SysEx: rapid.Bool().Draw(t, "dSX"),
			BufSize: uint32(rapid.SampledFrom([]int{0, 3, 5, 8}).Draw(t, "dBuf"))}
	}
	return c
}

func run(c Case) (res ev.Result) {
	if len(c.Items) == 0 {
		res.Skip = true
		return
	}
	stream := midiref.Serialise(c.Items)
	if !bytes.Equal(stream, live.Concat(c.Chunks)) {
		// a shrunk / hand-edited case whose chunking no longer covers the stream: re-chunk
		c.Chunks = live.Rechunk(stream, 0)
	}
	want := midiref.Expected(c.Items)
	// cross-check the expectation with the reference receiver (two independent derivations)
	rc := &midiref.Receiver{BufSize: int(c.BufSize)}
	for _, ch := range c.Chunks {
		rc.Feed(ch.Data, ch.Delta)
	}
	if len(rc.Out) != len(want) {
		panic(fmt.Sprintf("harness bug: reference receiver delivers %d messages, construction expects %d", len(rc.Out), len(want)))
	}
	for i := range want {
		if !bytes.Equal(rc.Out[i].Msg, want[i]) {
			panic(fmt.Sprintf("harness bug: reference receiver message %d = % X, construction expects % X", i, rc.Out[i].Msg, want[i]))
		}
	}
	// classes
	el := midiref.Elided(c.Items)
	for i, it := range c.Items {
		if el[i] {
			res.Classes = append(res.Classes, "running-status-elision")
			res.Nontrivial = true
		}
		n := len(it.Msg)
		if el[i] {
			n--
		}
		for _, rt := range it.RT {
			if rt.Pos > 0 && rt.Pos < n {
				res.Classes = append(res.Classes, "realtime-inside-message")
				res.Nontrivial = true
				if it.Msg[0] == 0xF0 {
					res.Classes = append(res.Classes, "realtime-inside-sysex")
				}
			}
		}
		if it.Msg[0] == 0xF0 {
			res.Classes = append(res.Classes, "sysex")
			if len(it.Msg) == int(c.BufSize) || (c.BufSize == 0 && len(it.Msg) == 1024) {
				res.Classes = append(res.Classes, "sysex-exactly-buffer-size")
			}
		}
	}
	if len(c.Chunks) > 1 {
		res.Classes = append(res.Classes, "multi-chunk")
		for _, d := range rc.Out {
			if d.TSFirst != d.TS {
				res.Nontrivial = true
				res.Classes = append(res.Classes, "chunk-boundary-inside-message")
				break
			}
		}
	}
	res.Classes = dedup(res.Classes)
	opts := live.AllOn
	opts.BufSize = c.BufSize
	compare := func(where string, obs []live.Obs, failed string, exactTS bool) string {
		if failed != "" {
			return where + ": " + failed
		}
		// F9/FD are don't-care bytes (not generated here, so nothing to filter)
		for i := 0; i < len(obs) || i < len(want); i++ {
			switch {
			case i >= len(obs):
				return fmt.Sprintf("%s: message %d (% X) was sent but not received (%d received, %d sent)", where, i, want[i], len(obs), len(want))
			case i >= len(want):
				return fmt.Sprintf("%s: received extra message %d: % X", where, i, []byte(obs[i].Msg))
			case !bytes.Equal(obs[i].Msg, want[i]):
				return fmt.Sprintf("%s: message %d received as % X, sent as % X", where, i, []byte(obs[i].Msg), want[i])
			}
			lo, hi := rc.Out[i].TSFirst, rc.Out[i].TS
			if want[i][0] != 0xF0 {
				lo = hi
			}
			if obs[i].TS < lo || obs[i].TS > hi {
				return fmt.Sprintf("%s: message %d (% X) has time stamp %d, completing chunk arrived at %d (first byte at %d)", where, i, want[i], obs[i].TS, hi, rc.Out[i].TSFirst)
			}
		}
		return ""
	}
	obs, failed := live.RunRaw(c.Chunks, opts)
	if s := compare("drivers.Reader", obs, failed, true); s != "" {
		res.Violation = s
		return
	}
	runListen := live.RunListen
	if c.Decoy != nil {
		var loop *live.Loop
		if p := ev.Try(func() { loop = live.NewLoop() }); p != "" {
			res.Violation = p
			return
		}
		if _, failed := loop.Run([]live.Chunk{{Data: []byte{0xF0, 0x01, 0x02, 0x03, 0x04, 0x05, 0xF7, 0x90, 0x01, 0x02}, Delta: 1}}, *c.Decoy); failed != "" {
			res.Violation = "earlier listening on the same port: " + failed
			return
		}
		runListen = loop.Run
		res.Classes = append(res.Classes, "second-listening-with-other-options")
	}
	obs, failed = runListen(c.Chunks, opts)
	if s := compare("midi.ListenTo on testdrv", obs, failed, false); s != "" {
		res.Violation = s
		return
	}
	return
}

func dedup(in []string) []string {
	seen := map[string]bool{}
	var out []string
	for _, s := range in {
		if !seen[s] {
			seen[s] = true
			out = append(out, s)
		}
	}
	return out
}

var streams = ev.NewCheck("C04", "streams",
	"rapid: 1..40 messages, one stream in 60 has 300..1500 (channel voice of all kinds and data ranges, MTC, SPP, song select, tune request, sysex of total length 2..buffer size with buffer size in {1,2,3,4,5,8,16,33,64,1024 default}, real-time F8 FA FB FC FE FF), serialised by a reference sender with chosen running-status elisions and real-time bytes inserted at arbitrary byte positions (also inside sysex), cut into Send/EachMessage calls (one call, one byte per call, random pieces incl. empty) with deltas 0..5000 ms; oracle = expected sequence by construction cross-checked with the reference receiver; observed at drivers.Reader (exact time stamps) and at midi.ListenTo on a testdrv loopback with all options on (time stamps relative to a sync message), in one case of four as the second listening on a port that was listened to before with other options and another buffer size; non-trivial = a real status elision, a real-time byte strictly inside a message, or a chunk boundary strictly inside a message; distinct by case hash",
	genCase, run)

func TestPropStreams(t *testing.T) { streams.Rapid(t, 4000, 50000) }

func TestReplay(t *testing.T) { ev.ReplayAll(t) }

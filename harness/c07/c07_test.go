// Package c07 decides property C07: message constructors emit the MIDI 1.0 wire encoding
// and accessors invert them.
package c07

import (
	"bytes"
	"fmt"
	"gitlab.com/gomidi/midi/v2/drivers"
	"testing"

	"gitlab.com/gomidi/midi/v2"
	"gitlab.com/gomidi/midi/v2/drivers/testdrv"
	"gitlab.com/gomidi/midi/v2/smf"
	"gitlab.com/gomidi/midi/v2/zverif/ev"
)

func TestMain(m *testing.M) { ev.Main(m) }

// Case is one constructor call. A = channel (or the single argument of a system common
// constructor), B, C = data arguments (Pitchbend: B = int16 value).
type Case struct {
	Ctor     string
	A, B, C  int
	Loopback bool
	Prev     int // index of the predecessor message on the loopback connection
}

func clamp(v, hi int) int {
	if v > hi {
		return hi
	}
	return v
}

// wire is the independent MIDI 1.0 wire table: expected bytes for the clamped arguments.
// wellFormedOnly: out-of-range system common arguments, where only status, length and
// 7-bit data are required.
func wire(c Case) (want []byte, wellFormedOnly bool) {
	ch := byte(clamp(c.A, 15))
	d1, d2 := byte(clamp(c.B, 127)), byte(clamp(c.C, 127))
	switch c.Ctor {
	case "NoteOn":
		return []byte{0x90 | ch, d1, d2}, false
	case "NoteOff":
		return []byte{0x80 | ch, d1, 0}, false
	case "NoteOffVelocity":
		return []byte{0x80 | ch, d1, d2}, false
	case "PolyAfterTouch":
		return []byte{0xA0 | ch, d1, d2}, false
	case "ControlChange":
		return []byte{0xB0 | ch, d1, d2}, false
	case "ProgramChange":
		return []byte{0xC0 | ch, d1}, false
	case "AfterTouch":
		return []byte{0xD0 | ch, d1}, false
	case "Pitchbend":
		v := c.B
		if v > 8191 {
			v = 8191
		}
		if v < -8192 {
			v = -8192
		}
		u := v + 8192
		return []byte{0xE0 | ch, byte(u & 0x7F), byte(u >> 7)}, false
	case "SPP":
		return []byte{0xF2, byte(c.A & 0x7F), byte((c.A >> 7) & 0x7F)}, c.A > 16383
	case "SongSelect":
		return []byte{0xF3, byte(c.A & 0x7F)}, c.A > 127
	case "MTC":
		return []byte{0xF1, byte(c.A & 0x7F)}, c.A > 127
	case "Tune":
		return []byte{0xF6}, false
	}
	panic("unknown ctor " + c.Ctor)
}

func construct(c Case) midi.Message {
	switch c.Ctor {
	case "NoteOn":
		return midi.NoteOn(uint8(c.A), uint8(c.B), uint8(c.C))
	case "NoteOff":
		return midi.NoteOff(uint8(c.A), uint8(c.B))
	case "NoteOffVelocity":
		return midi.NoteOffVelocity(uint8(c.A), uint8(c.B), uint8(c.C))
	case "PolyAfterTouch":
		return midi.PolyAfterTouch(uint8(c.A), uint8(c.B), uint8(c.C))
	case "ControlChange":
		return midi.ControlChange(uint8(c.A), uint8(c.B), uint8(c.C))
	case "ProgramChange":
		return midi.ProgramChange(uint8(c.A), uint8(c.B))
	case "AfterTouch":
		return midi.AfterTouch(uint8(c.A), uint8(c.B))
	case "Pitchbend":
		return midi.Pitchbend(uint8(c.A), int16(c.B))
	case "SPP":
		return midi.SPP(uint16(c.A))
	case "SongSelect":
		return midi.SongSelect(uint8(c.A))
	case "MTC":
		return midi.MTC(uint8(c.A))
	case "Tune":
		return midi.Tune()
	}
	panic("unknown ctor " + c.Ctor)
}

// accessor results: which type-specific accessors accept, and what they return
type access struct {
	accepted []string
	vals     map[string][3]int
}

func accessors(m midi.Message, sm smf.Message) access {
	a := access{vals: map[string][3]int{}}
	var ch, x, y uint8
	var rel int16
	var abs, spp uint16
	var bt []byte
	add := func(name string, ok bool, v [3]int) {
		if ok {
			a.accepted = append(a.accepted, name)
			a.vals[name] = v
		}
	}
	add("NoteOn", m.GetNoteOn(&ch, &x, &y), [3]int{int(ch), int(x), int(y)})
	add("NoteOff", m.GetNoteOff(&ch, &x, &y), [3]int{int(ch), int(x), int(y)})
	add("PolyAfterTouch", m.GetPolyAfterTouch(&ch, &x, &y), [3]int{int(ch), int(x), int(y)})
	add("ControlChange", m.GetControlChange(&ch, &x, &y), [3]int{int(ch), int(x), int(y)})
	add("ProgramChange", m.GetProgramChange(&ch, &x), [3]int{int(ch), int(x), 0})
	add("AfterTouch", m.GetAfterTouch(&ch, &x), [3]int{int(ch), int(x), 0})
	add("Pitchbend", m.GetPitchBend(&ch, &rel, &abs), [3]int{int(ch), int(rel), int(abs)})
	add("MTC", m.GetMTC(&x), [3]int{int(x), 0, 0})
	add("SongSelect", m.GetSongSelect(&x), [3]int{int(x), 0, 0})
	add("SPP", m.GetSPP(&spp), [3]int{int(spp), 0, 0})
	add("SysEx", m.GetSysEx(&bt), [3]int{})
	// the file level message type must agree on the channel accessors and reject all meta accessors
	var s string
	var f float64
	var k smf.Key
	var u16 uint16
	var b bool
	add("smf.NoteOn", sm.GetNoteOn(&ch, &x, &y), [3]int{int(ch), int(x), int(y)})
	add("smf.NoteOff", sm.GetNoteOff(&ch, &x, &y), [3]int{int(ch), int(x), int(y)})
	add("smf.PolyAfterTouch", sm.GetPolyAfterTouch(&ch, &x, &y), [3]int{int(ch), int(x), int(y)})
	add("smf.ControlChange", sm.GetControlChange(&ch, &x, &y), [3]int{int(ch), int(x), int(y)})
	add("smf.ProgramChange", sm.GetProgramChange(&ch, &x), [3]int{int(ch), int(x), 0})
	add("smf.AfterTouch", sm.GetAfterTouch(&ch, &x), [3]int{int(ch), int(x), 0})
	add("smf.Pitchbend", sm.GetPitchBend(&ch, &rel, &abs), [3]int{int(ch), int(rel), int(abs)})
	add("smf.SysEx", sm.GetSysEx(&bt), [3]int{})
	add("smf.MetaTempo", sm.GetMetaTempo(&f), [3]int{})
	add("smf.MetaMeter", sm.GetMetaMeter(&x, &y), [3]int{})
	add("smf.MetaChannel", sm.GetMetaChannel(&x), [3]int{})
	add("smf.MetaPort", sm.GetMetaPort(&x), [3]int{})
	add("smf.MetaSeqNumber", sm.GetMetaSeqNumber(&u16), [3]int{})
	add("smf.MetaSMPTE", sm.GetMetaSMPTEOffsetMsg(&x, &x, &x, &x, &x), [3]int{})
	add("smf.MetaSeqData", sm.GetMetaSeqData(&bt), [3]int{})
	add("smf.MetaKey", sm.GetMetaKey(&k), [3]int{})
	add("smf.MetaKeySig", sm.GetMetaKeySig(&x, &y, &b, &b), [3]int{})
	add("smf.MetaTimeSig", sm.GetMetaTimeSig(&x, &x, &x, &x), [3]int{})
	add("smf.MetaLyric", sm.GetMetaLyric(&s), [3]int{})
	add("smf.MetaCopyright", sm.GetMetaCopyright(&s), [3]int{})
	add("smf.MetaCuepoint", sm.GetMetaCuepoint(&s), [3]int{})
	add("smf.MetaDevice", sm.GetMetaDevice(&s), [3]int{})
	add("smf.MetaInstrument", sm.GetMetaInstrument(&s), [3]int{})
	add("smf.MetaMarker", sm.GetMetaMarker(&s), [3]int{})
	add("smf.MetaProgramName", sm.GetMetaProgramName(&s), [3]int{})
	add("smf.MetaText", sm.GetMetaText(&s), [3]int{})
	add("smf.MetaTrackName", sm.GetMetaTrackName(&s), [3]int{})
	return a
}

// loop is a reusable testdrv loopback.
type loop struct {
	send func(midi.Message) error
	got  [][]byte
	stop func()
	out  drivers.Out
	uses int
}

// reopen closes the out-port of the loopback and opens it again (what midi.FindOutPort or a
// sender that reconnects does while the listener stays where it is).
func (l *loop) reopen() {
	l.out.Close()
	var err error
	if l.send, err = midi.SendTo(l.out); err != nil {
		panic(err)
	}
}

// loopBuf: the sysex buffer size a case's loopback listens with (0 = default). A channel or
// system-common message must arrive whatever that size is.
func loopBuf(c Case) uint32 { return []uint32{0, 1, 2}[c.Prev%3] }

func newLoop(bufSize uint32) *loop {
	l := &loop{}
	drv := testdrv.New("c07")
	ins, _ := drv.Ins()
	outs, _ := drv.Outs()
	var err error
	opts := []midi.Option{midi.UseSysEx(), midi.UseTimeCode(), midi.UseActiveSense()}
	if bufSize > 0 {
		opts = append(opts, midi.SysExBufferSize(bufSize))
	}
	l.out = outs[0]
	if bufSize == 1 {
		// the other order of setting up a connection: the sender first
		if l.send, err = midi.SendTo(outs[0]); err != nil {
			panic(err)
		}
	}
	l.stop, err = midi.ListenTo(ins[0], func(m midi.Message, ts int32) { l.got = append(l.got, append([]byte{}, m...)) }, opts...)
	if err != nil {
		panic(err)
	}
	if bufSize != 1 {
		if l.send, err = midi.SendTo(outs[0]); err != nil {
			panic(err)
		}
	}
	return l
}

func check(c Case, lp *loop) string {
	want, wfOnly := wire(c)
	var m midi.Message
	// a caller owns the message it got and may append to it (e.g. to build a byte stream): that
	// must never reach the message another call returns
	ev.Try(func() {
		for _, da := range []int{-1, 0} {
			d := c
			d.A = c.A + da
			if d.A < 0 {
				continue
			}
			pm := construct(d)
			_ = append(pm, 0xEE, 0xEE, 0xEE, 0xEE)
			for i := range pm {
				pm[i] ^= 0xFF // ... and may overwrite it
			}
		}
	})
	if p := ev.Try(func() { m = construct(c) }); p != "" {
		return "constructor: " + p
	}
	for i, b := range m {
		if i > 0 && b > 127 {
			return fmt.Sprintf("%s%v emits % X: data byte above 127", c.Ctor, []int{c.A, c.B, c.C}, []byte(m))
		}
	}
	if wfOnly {
		if len(m) != len(want) || m[0] != want[0] {
			return fmt.Sprintf("%s(%d) emits % X: not a well formed %s message", c.Ctor, c.A, []byte(m), c.Ctor)
		}
		return ""
	}
	if !bytes.Equal(m, want) {
		return fmt.Sprintf("%s%v emits % X, MIDI 1.0 wire encoding is % X", c.Ctor, []int{c.A, c.B, c.C}, []byte(m), want)
	}
	// accessors
	var acc access
	if p := ev.Try(func() { acc = accessors(m, smf.Message(m)) }); p != "" {
		return "accessors: " + p
	}
	name := c.Ctor
	var wantVals [3]int
	ch := clamp(c.A, 15)
	switch c.Ctor {
	case "NoteOffVelocity":
		name = "NoteOff"
		wantVals = [3]int{ch, clamp(c.B, 127), clamp(c.C, 127)}
	case "NoteOff":
		wantVals = [3]int{ch, clamp(c.B, 127), 0}
	case "ProgramChange", "AfterTouch":
		wantVals = [3]int{ch, clamp(c.B, 127), 0}
	case "Pitchbend":
		v := c.B
		if v > 8191 {
			v = 8191
		}
		if v < -8192 {
			v = -8192
		}
		wantVals = [3]int{ch, v, v + 8192}
	case "SPP", "SongSelect", "MTC":
		wantVals = [3]int{c.A, 0, 0}
	case "Tune":
		name = ""
	default:
		wantVals = [3]int{ch, clamp(c.B, 127), clamp(c.C, 127)}
	}
	var wantAccepted []string
	if name != "" {
		wantAccepted = []string{name}
		if c.Ctor != "SPP" && c.Ctor != "SongSelect" && c.Ctor != "MTC" {
			wantAccepted = append(wantAccepted, "smf."+name)
		}
	}
	if fmt.Sprint(acc.accepted) != fmt.Sprint(wantAccepted) {
		return fmt.Sprintf("%s%v = % X: accepted by accessors %v, want exactly %v", c.Ctor, []int{c.A, c.B, c.C}, []byte(m), acc.accepted, wantAccepted)
	}
	for _, n := range wantAccepted {
		if acc.vals[n] != wantVals {
			return fmt.Sprintf("%s%v = % X: accessor Get%s returns %v, want %v", c.Ctor, []int{c.A, c.B, c.C}, []byte(m), n, acc.vals[n], wantVals)
		}
	}
	// the accessors fill only the arguments that are not nil: every subset of pointers must give
	// the same answer and the same values
	if s := partialNil(c, m, name, wantVals); s != "" {
		return s
	}
	// derived views against their definitions
	var dch, dk, dv uint8
	isOn := m.GetNoteStart(&dch, &dk, &dv)
	wantOn := name == "NoteOn" && clamp(c.C, 127) > 0
	if isOn != wantOn || (isOn && (int(dch) != ch || int(dk) != clamp(c.B, 127) || int(dv) != clamp(c.C, 127))) {
		return fmt.Sprintf("%s%v: GetNoteStart = %v (%d %d %d)", c.Ctor, []int{c.A, c.B, c.C}, isOn, dch, dk, dv)
	}
	isEnd := m.GetNoteEnd(&dch, &dk)
	wantEnd := name == "NoteOff" || (name == "NoteOn" && clamp(c.C, 127) == 0)
	if isEnd != wantEnd || (isEnd && (int(dch) != ch || int(dk) != clamp(c.B, 127))) {
		return fmt.Sprintf("%s%v: GetNoteEnd = %v (%d %d)", c.Ctor, []int{c.A, c.B, c.C}, isEnd, dch, dk)
	}
	isCh := m.GetChannel(&dch)
	if isCh != (m[0] < 0xF0) || (isCh && int(dch) != ch) {
		return fmt.Sprintf("%s%v: GetChannel = %v (%d)", c.Ctor, []int{c.A, c.B, c.C}, isCh, dch)
	}
	if c.Loopback && lp != nil {
		// the message is sent directly behind a predecessor of a rotating kind, so that every
		// (previous kind, this kind) pair goes over the same connection (state must not leak)
		prev := predecessors[c.Prev%len(predecessors)]
		lp.got = lp.got[:0]
		var err error
		if p := ev.Try(func() {
			// every 50th use of a connection the out-port is closed and opened again first
			if lp.uses++; lp.uses%50 == 2 {
				lp.reopen()
			}
			if err = lp.send(prev); err == nil {
				err = lp.send(m)
			}
		}); p != "" || err != nil {
			return fmt.Sprintf("loopback send of % X: %v %s", []byte(m), err, p)
		}
		if len(lp.got) != 2 || !bytes.Equal(lp.got[0], prev) || !bytes.Equal(lp.got[1], m) {
			return fmt.Sprintf("%s%v = % X sent through a loopback port directly after % X arrives as % X", c.Ctor, []int{c.A, c.B, c.C}, []byte(m), []byte(prev), lp.got)
		}
	}
	return ""
}

// predecessors: one message of every constructor kind.
var predecessors = []midi.Message{
	midi.NoteOn(1, 60, 100), midi.NoteOff(2, 61), midi.PolyAfterTouch(3, 62, 63), midi.ControlChange(4, 7, 127),
	midi.ProgramChange(5, 9), midi.AfterTouch(6, 10), midi.Pitchbend(7, -100), midi.SPP(1000), midi.SongSelect(3),
	midi.MTC(0x25), midi.Tune(), midi.Pitchbend(15, 8191), midi.SPP(16383),
}

var ctors = ev.NewCheck("C07", "constructors",
	"exhaustive: NoteOn/NoteOff/NoteOffVelocity/PolyAfterTouch/ControlChange over 16x128x128, ProgramChange/AfterTouch 16x128, Pitchbend 16 x all 65536 int16 values, SPP all 65536, SongSelect and MTC all 256, Tune; plus out-of-range grid channel {16,17,127,128,255} x data {128,129,200,254,255} x in-range partners {0,1,64,127}; before every case the messages of the same and the preceding first argument are constructed and appended to by the caller (results must not share memory); oracle = independent MIDI 1.0 wire table (status nibble|channel, clamped 7-bit data, 14-bit LSB first), no data byte > 127 for any argument, matching accessor returns the (clamped) arguments, every other type-specific accessor of midi.Message and smf.Message (incl. all meta accessors) rejects, derived views by definition, every accessor also with each subset of nil out-parameters (the API fills only non-nil arguments), and loopback through testdrv, directly behind a predecessor message of a rotating constructor kind on the same connection, listening with the default sysex buffer or with one of 1 or 2 bytes, sender or listener set up first, the out-port closed and reopened every 50th use while the listener stays, delivers the same bytes (quick: every 16th tuple, thorough: all); non-trivial = some data argument != 0; tuples are distinct by construction",
	nil, func(c Case) (res ev.Result) {
		res.Nontrivial = true
		var lp *loop
		if c.Loopback {
			lp = newLoop(loopBuf(c))
			defer lp.stop()
		}
		res.Violation = check(c, lp)
		return
	})

func TestEnumConstructors(t *testing.T) {
	ctors.R.Exhaustive = true
	var loops [3]*loop
	for i := range loops {
		loops[i] = newLoop([]uint32{0, 1, 2}[i])
		defer loops[i].stop()
	}
	var n, nt, idx int64
	shard, shards := int64(ev.Shard()), int64(ev.Shards())
	stride := int64(ev.N(16, 1))
	failed := false
	one := func(c Case) {
		if failed {
			return
		}
		idx++
		if idx%shards != shard {
			return
		}
		c.Loopback = (idx/shards)%stride == 0
		c.Prev = int((idx / shards / stride) % int64(len(predecessors)))
		n++
		if c.B != 0 || c.C != 0 || (c.A != 0 && c.Ctor[0] != 'N') {
			nt++
		}
		if s := check(c, loops[c.Prev%3]); s != "" {
			failed = true
			ctors.R.AddEnum(n, nt, "")
			ctors.R.Fail(t, c, "%s", s)
		}
		if idx == 4242 {
			ctors.R.Sample(c)
		}
	}
	two := []string{"NoteOn", "NoteOffVelocity", "PolyAfterTouch", "ControlChange"}
	for _, name := range two {
		for ch := 0; ch < 16; ch++ {
			for a := 0; a < 128; a++ {
				for b := 0; b < 128; b++ {
					one(Case{Ctor: name, A: ch, B: a, C: b})
				}
			}
		}
	}
	for ch := 0; ch < 16; ch++ {
		for a := 0; a < 128; a++ {
			one(Case{Ctor: "NoteOff", A: ch, B: a})
			one(Case{Ctor: "ProgramChange", A: ch, B: a})
			one(Case{Ctor: "AfterTouch", A: ch, B: a})
		}
		for v := -32768; v <= 32767; v++ {
			one(Case{Ctor: "Pitchbend", A: ch, B: v})
		}
	}
	for p := 0; p < 65536; p++ {
		one(Case{Ctor: "SPP", A: p})
	}
	for p := 0; p < 256; p++ {
		one(Case{Ctor: "SongSelect", A: p})
		one(Case{Ctor: "MTC", A: p})
	}
	one(Case{Ctor: "Tune"})
	// out-of-range grid
	chans := []int{0, 15, 16, 17, 127, 128, 255}
	datas := []int{0, 1, 64, 127, 128, 129, 200, 254, 255}
	for _, name := range append(two, "NoteOff", "ProgramChange", "AfterTouch", "Pitchbend") {
		for _, ch := range chans {
			for _, a := range datas {
				for _, b := range datas {
					if ch <= 15 && a <= 127 && b <= 127 {
						continue
					}
					c := Case{Ctor: name, A: ch, B: a, C: b}
					if name == "Pitchbend" {
						c = Case{Ctor: name, A: ch, B: (a - 128) * 200}
					}
					one(c)
				}
			}
		}
	}
	ctors.R.AddEnum(n, nt, "")
}

func TestReplay(t *testing.T) { ev.ReplayAll(t) }

// partialNil calls the matching accessor with every subset of nil out-parameters.
func partialNil(c Case, m midi.Message, name string, want [3]int) string {
	type acc3 func(a, b, c *uint8) bool
	var f acc3
	two := false
	switch name {
	case "NoteOn":
		f = m.GetNoteOn
	case "NoteOff":
		f = m.GetNoteOff
	case "PolyAfterTouch":
		f = m.GetPolyAfterTouch
	case "ControlChange":
		f = m.GetControlChange
	case "ProgramChange":
		f, two = func(a, b, _ *uint8) bool { return m.GetProgramChange(a, b) }, true
	case "AfterTouch":
		f, two = func(a, b, _ *uint8) bool { return m.GetAfterTouch(a, b) }, true
	case "Pitchbend":
		for mask := 0; mask < 8; mask++ {
			var ch uint8 = 0xEE
			var rel int16 = 0x7EEE
			var abs uint16 = 0xEEEE
			var pc *uint8
			var pr *int16
			var pa *uint16
			if mask&1 != 0 {
				pc = &ch
			}
			if mask&2 != 0 {
				pr = &rel
			}
			if mask&4 != 0 {
				pa = &abs
			}
			if !m.GetPitchBend(pc, pr, pa) {
				return fmt.Sprintf("%s%v: GetPitchBend rejects the message when called with nil pattern %03b", c.Ctor, []int{c.A, c.B}, mask)
			}
			if (pc != nil && int(ch) != want[0]) || (pr != nil && int(rel) != want[1]) || (pa != nil && int(abs) != want[2]) {
				return fmt.Sprintf("%s%v: GetPitchBend with nil pattern %03b fills %d %d %d, want %v", c.Ctor, []int{c.A, c.B}, mask, ch, rel, abs, want)
			}
		}
		return ""
	default:
		return ""
	}
	n := 8
	if two {
		n = 4
	}
	for mask := 0; mask < n; mask++ {
		vals := [3]uint8{0xEE, 0xEE, 0xEE}
		var ps [3]*uint8
		for i := 0; i < 3; i++ {
			if mask&(1<<i) != 0 {
				ps[i] = &vals[i]
			}
		}
		if !f(ps[0], ps[1], ps[2]) {
			return fmt.Sprintf("%s%v: Get%s rejects the message when called with nil pattern %03b", c.Ctor, []int{c.A, c.B, c.C}, name, mask)
		}
		for i := 0; i < 3; i++ {
			if ps[i] != nil && int(vals[i]) != want[i] {
				return fmt.Sprintf("%s%v: Get%s called with nil pattern %03b fills argument %d with %d, want %d", c.Ctor, []int{c.A, c.B, c.C}, name, mask, i, vals[i], want[i])
			}
		}
	}
	// the derived views with nil arguments
	if name == "NoteOn" || name == "NoteOff" {
		var ch, key, vel uint8
		startAll := m.GetNoteStart(&ch, &key, &vel)
		endAll := m.GetNoteEnd(&ch, &key)
		if m.GetNoteStart(nil, nil, nil) != startAll || m.GetNoteStart(&ch, nil, nil) != startAll || m.GetNoteStart(nil, &key, nil) != startAll || m.GetNoteStart(nil, nil, &vel) != startAll {
			return fmt.Sprintf("%s%v: GetNoteStart answers differently when some out-parameters are nil", c.Ctor, []int{c.A, c.B, c.C})
		}
		if m.GetNoteEnd(nil, nil) != endAll || m.GetNoteEnd(&ch, nil) != endAll || m.GetNoteEnd(nil, &key) != endAll {
			return fmt.Sprintf("%s%v: GetNoteEnd answers differently when some out-parameters are nil", c.Ctor, []int{c.A, c.B, c.C})
		}
	}
	return ""
}

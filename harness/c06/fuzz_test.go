package c06

import (
	"testing"

	"gitlab.com/gomidi/midi/v2/zverif/live"
)

// FuzzC06: raw bytes -> (buffer size, chunking, stream) against the reference receiver.
func FuzzC06(f *testing.F) {
	f.Add([]byte{0, 0, 0x90, 0x40, 0x80, 0x41, 0x42})
	f.Add([]byte{1, 1, 0xF0, 0x01, 0x02, 0x03, 0x04, 0xF7, 0x90, 0x01, 0x02})
	f.Add([]byte{2, 3, 0xF2, 0x01, 0x90, 0x40, 0x40, 0xF7, 0xC0, 0x05, 0x06, 0xF8, 0x07})
	f.Add([]byte{3, 2, 0xF0, 0xF8, 0x01, 0xF4, 0x02, 0xF7, 0xF7, 0xB0, 0x01, 0xFE, 0x02, 0x03, 0x04})
	f.Fuzz(func(t *testing.T, data []byte) {
		if len(data) < 3 || len(data) > 5000 {
			return
		}
		bufs := []uint32{0, 3, 4, 8, 64}
		c := Case{BufSize: bufs[int(data[0])%len(bufs)]}
		c.Chunks = live.Rechunk(data[2:], int(data[1])%7)
		if r := run(c); r.Violation != "" {
			random.R.Fail(t, c, "%s", r.Violation)
		}
	})
}

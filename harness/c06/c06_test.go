// Package c06 decides property C06: the live decoder survives arbitrary bytes and
// resynchronises like a MIDI receiver.
package c06

import (
	"bytes"
	"fmt"
	"testing"

	"gitlab.com/gomidi/midi/v2/drivers"
	"gitlab.com/gomidi/midi/v2/zverif/ev"
	"gitlab.com/gomidi/midi/v2/zverif/live"
	"gitlab.com/gomidi/midi/v2/zverif/ref/midiref"
	"pgregory.net/rapid"
)

func TestMain(m *testing.M) { ev.Main(m) }

// Case is a byte stream with its delivery chunking.
type Case struct {
	Chunks  []live.Chunk
	BufSize uint32
	Level   string // "raw", "listen" or "" = both
	// for prefix+suffix cases: the well-formed messages that end the stream
	Suffix []ev.Hex `json:",omitempty"`
	// Before: bytes sent during an EARLIER listening on the same port (listen, send Before, stop,
	// listen again, send Chunks): the second listening must behave like a fresh receiver
	Before []live.Chunk `json:",omitempty"`
}

func filterDontCare(obs []live.Obs) []live.Obs {
	out := obs[:0:0]
	for _, o := range obs {
		if !midiref.DontCare(o.Msg) {
			out = append(out, o)
		}
	}
	return out
}

func reference(c Case) *midiref.Receiver {
	rc := &midiref.Receiver{BufSize: int(c.BufSize)}
	for _, ch := range c.Chunks {
		rc.Feed(ch.Data, ch.Delta)
	}
	return rc
}

func compare(where string, obs []live.Obs, failed string, rc *midiref.Receiver, stream []byte) string {
	if failed != "" {
		return fmt.Sprintf("%s on stream % X: %s", where, clip(stream), failed)
	}
	obs = filterDontCare(obs)
	var want []midiref.Delivered
	for _, d := range rc.Out {
		if !midiref.DontCare(d.Msg) {
			want = append(want, d)
		}
	}
	for i, o := range obs {
		if s := midiref.WellFormed(o.Msg); s != "" {
			return fmt.Sprintf("%s delivered a malformed message %d (% X): %s; stream % X", where, i, []byte(o.Msg), s, clip(stream))
		}
	}
	for i := 0; i < len(obs) || i < len(want); i++ {
		switch {
		case i >= len(obs):
			return fmt.Sprintf("%s: message %d (% X) of the receiver model was not delivered (%d delivered, model %d); stream % X", where, i, []byte(want[i].Msg), len(obs), len(want), clip(stream))
		case i >= len(want):
			return fmt.Sprintf("%s: delivered message %d (% X) that the receiver model does not produce; stream % X", where, i, []byte(obs[i].Msg), clip(stream))
		case !bytes.Equal(obs[i].Msg, want[i].Msg):
			return fmt.Sprintf("%s: message %d delivered as % X, receiver model gives % X; stream % X", where, i, []byte(obs[i].Msg), []byte(want[i].Msg), clip(stream))
		}
	}
	return ""
}

func clip(b []byte) []byte {
	if len(b) > 48 {
		return b[:48]
	}
	return b
}

func run(c Case) (res ev.Result) {
	stream := live.Concat(c.Chunks)
	rc := reference(c)
	res.Key = append([]byte(fmt.Sprint(c.BufSize, len(c.Chunks), c.Level, ":")), stream...)
	if rc.Interrupted > 0 {
		res.Classes = append(res.Classes, "status-interrupts-message")
	}
	if rc.Oversize > 0 {
		res.Classes = append(res.Classes, "oversize-sysex")
	}
	if rc.Undefined > 0 {
		res.Classes = append(res.Classes, "undefined-status")
	}
	if rc.Orphan > 0 {
		res.Classes = append(res.Classes, "data-without-status")
	}
	res.Nontrivial = len(res.Classes) > 0
	opts := live.AllOn
	opts.BufSize = c.BufSize
	if c.Level != "listen" {
		obs, failed := live.RunRaw(c.Chunks, opts)
		if s := compare("drivers.Reader", obs, failed, rc, stream); s != "" {
			res.Violation = s
			return
		}
	}
	if c.Level != "raw" {
		runListen := live.RunListen
		if len(c.Before) > 0 {
			var loop *live.Loop
			if p := ev.Try(func() { loop = live.NewLoop() }); p != "" {
				res.Violation = p
				return
			}
			if _, failed := loop.Run(c.Before, opts); failed != "" {
				res.Violation = "earlier listening on the same port: " + failed
				return
			}
			runListen = loop.Run
			res.Classes = append(res.Classes, "second-listening-on-the-same-port")
		}
		obs, failed := runListen(c.Chunks, opts)
		if s := compare("midi.ListenTo", obs, failed, rc, stream); s != "" {
			res.Violation = s
			return
		}
		if len(c.Suffix) > 0 {
			obs = filterDontCare(obs)
			if len(obs) < len(c.Suffix) {
				res.Violation = fmt.Sprintf("after a garbage prefix only %d messages were delivered, the well-formed suffix has %d", len(obs), len(c.Suffix))
				return
			}
			tail := obs[len(obs)-len(c.Suffix):]
			for i := range c.Suffix {
				if !bytes.Equal(tail[i].Msg, c.Suffix[i]) {
					res.Violation = fmt.Sprintf("after a garbage prefix, suffix message %d was decoded as % X instead of % X; stream % X", i, []byte(tail[i].Msg), []byte(c.Suffix[i]), clip(stream))
					return
				}
			}
			res.Classes = append(res.Classes, "garbage-prefix+valid-suffix")
		}
	}
	return
}

// ---- (a) exhaustive enumeration over one representative per byte class --------------------

var alphabet = []byte{0x00, 0x7F, 0x80, 0x91, 0xA2, 0xB3, 0xC4, 0xD5, 0xE6, 0xF0, 0xF1, 0xF2, 0xF3, 0xF4, 0xF5, 0xF6, 0xF7, 0xF8, 0xFE}

var enum = ev.NewCheck("C06", "enumerated-streams",
	"exhaustive: all byte streams of length 1..L over a 19 symbol alphabet with one representative per byte class (data 00/7F; status 80 91 A2 B3 C4 D5 E6; F0 F1 F2 F3 F4 F5 F6 F7; real-time F8 FE), each with sysex buffer sizes 3, 4 and 1024; quick: L=5 at drivers.Reader and L=4 at midi.ListenTo; thorough: L=7 and L=6; oracle = reference MIDI 1.0 receiver state machine (sequence equality) + every delivered message well formed + no panic; non-trivial = stream contains a status byte arriving while a message is incomplete, an oversize sysex, an undefined status or data without status; streams are distinct by construction",
	nil, run)

// fast raw runner without per-stream allocations of the harness
type rawRunner struct {
	rd   *drivers.Reader
	got  [][]byte
	buf  [64][4]byte
	n    int
	fail string
}

func enumLevel(t *testing.T, level string, L int) {
	total := int64(0)
	pow := int64(1)
	for l := 1; l <= L; l++ {
		pow *= int64(len(alphabet))
		total += pow
	}
	lo, hi := ev.ShardRange(total)
	stream := make([]byte, 0, L)
	var n, nt int64
	flush := func() { enum.R.AddEnum(n, nt, "level="+level); n, nt = 0, 0 }
	defer flush()
	for idx := lo; idx < hi; idx++ {
		// decode idx into (length, digits)
		rem := idx
		l := 1
		p := int64(len(alphabet))
		for rem >= p {
			rem -= p
			p *= int64(len(alphabet))
			l++
		}
		stream = stream[:0]
		for i := 0; i < l; i++ {
			stream = append(stream, alphabet[rem%int64(len(alphabet))])
			rem /= int64(len(alphabet))
		}
		for _, bs := range []uint32{3, 4, 1024} {
			// the buffer size only matters when the stream contains F0
			if bs != 1024 && bytes.IndexByte(stream, 0xF0) < 0 {
				continue
			}
			c := Case{Chunks: []live.Chunk{{Data: stream, Delta: 1}}, BufSize: bs, Level: level}
			res := run(c)
			n++
			if res.Nontrivial {
				nt++
			}
			if res.Violation != "" {
				c.Chunks = []live.Chunk{{Data: append([]byte{}, stream...), Delta: 1}}
				enum.R.Fail(t, c, "%s", res.Violation)
				return
			}
			if idx == lo+12345 && bs == 1024 {
				c.Chunks = []live.Chunk{{Data: append([]byte{}, stream...), Delta: 1}}
				enum.R.Sample(c)
			}
		}
	}
}

func TestEnumRaw(t *testing.T) {
	enum.R.Exhaustive = true
	enumLevel(t, "raw", ev.N(5, 7))
}

func TestEnumListen(t *testing.T) {
	enumLevel(t, "listen", ev.N(4, 6))
}

// ---- (b) rapid: long random streams, garbage prefix + well-formed suffix -------------------

func genRandom(t *rapid.T) Case {
	var c Case
	c.BufSize = uint32(rapid.SampledFrom([]int{0, 0, 1, 2, 3, 4, 8, 64}).Draw(t, "bufSize"))
	buf := int(c.BufSize)
	if buf == 0 {
		buf = 1024
	}
	if rapid.IntRange(0, 60).Draw(t, "hugeBuffer?") == 0 {
		// a very large configured buffer: sysex messages far above the default size must arrive
		c.BufSize = rapid.SampledFrom([]uint32{1<<20 + 7, 1<<24 + 9, 1 << 25}).Draw(t, "hugeBufSize")
		buf = rapid.SampledFrom([]int{1100, 2000, 70000}).Draw(t, "sysexLenUnderHugeBuffer")
	}
	var stream []byte
	nseg := rapid.IntRange(1, 30).Draw(t, "nSegments")
	for i := 0; i < nseg; i++ {
		switch rapid.IntRange(0, 7).Draw(t, "segment") {
		case 0, 1: // uniformly random bytes
			stream = append(stream, rapid.SliceOfN(rapid.Byte(), 1, 40).Draw(t, "randomBytes")...)
		case 2: // status heavy
			stream = append(stream, rapid.SliceOfN(rapid.OneOf(rapid.ByteRange(0x80, 0xFF), rapid.ByteRange(0, 0x7F)), 1, 20).Draw(t, "statusHeavy")...)
		case 3: // sysex around the buffer size (below, exactly, above), possibly unterminated
			n := rapid.SampledFrom([]int{buf - 3, buf - 2, buf - 1, buf, buf + 1, buf + 70, 1}).Draw(t, "syxPayload")
			if n < 0 {
				n = 0
			}
			stream = append(stream, 0xF0)
			a := rapid.ByteRange(0, 127).Draw(t, "fill")
			for j := 0; j < n; j++ {
				stream = append(stream, (a+byte(j))&0x7F)
				if j == n/2 && rapid.IntRange(0, 3).Draw(t, "rtInSysex?") == 0 {
					stream = append(stream, 0xF8)
				}
			}
			if rapid.IntRange(0, 4).Draw(t, "terminate?") > 0 {
				stream = append(stream, 0xF7)
			}
		case 4: // running status run
			st := rapid.ByteRange(0x80, 0xEF).Draw(t, "runStatus")
			stream = append(stream, st)
			stream = append(stream, rapid.SliceOfN(rapid.ByteRange(0, 127), 0, 9).Draw(t, "runData")...)
		case 5: // undefined and lonely bytes
			stream = append(stream, rapid.SliceOfN(rapid.SampledFrom([]byte{0xF4, 0xF5, 0xF7, 0xF9, 0xFD, 0xF1, 0xF2, 0xF3, 0xF6, 0x00, 0x7F}), 1, 6).Draw(t, "odd")...)
		default: // a well formed message, now and then repeated with the same data bytes on other channels
			m := wellFormed(t, buf)
			stream = append(stream, m...)
			if m[0] < 0xF0 && rapid.IntRange(0, 3).Draw(t, "sameOnOtherChannels?") == 0 {
				for k := rapid.IntRange(1, 3).Draw(t, "nCopies"); k > 0; k-- {
					cp := append([]byte{}, m...)
					cp[0] = m[0]&0xF0 | byte(rapid.IntRange(0, 15).Draw(t, "otherChannel"))
					stream = append(stream, cp...)
				}
			}
		}
	}
	if rapid.Bool().Draw(t, "suffix?") {
		k := rapid.IntRange(1, 6).Draw(t, "nSuffix")
		for i := 0; i < k; i++ {
			m := wellFormed(t, buf)
			if i == 0 {
				for m[0] >= 0xF8 { // the suffix starts with a non-real-time status byte
					m = []byte{0x90, 0x40, 0x41}
				}
			}
			c.Suffix = append(c.Suffix, m)
			stream = append(stream, m...)
		}
	}
	c.Chunks = live.Chunking(t, stream, 50)
	if rapid.IntRange(0, 3).Draw(t, "earlierListening?") == 0 {
		// something that leaves a decoder in the middle of a message / of a sysex / with running status
		b := rapid.SampledFrom([][]byte{{0x90, 0x3C}, {0x90, 0x3C, 0x40}, {0xF0, 0x01, 0x02}, {0xF2, 0x10}, {0xB1, 0x07, 0x7F, 0x08}, {0xE3}, {0xF0}}).Draw(t, "before")
		c.Before = []live.Chunk{{Data: b, Delta: 1}}
	}
	return c
}

func wellFormed(t *rapid.T, buf int) []byte {
	st := rapid.OneOf(rapid.ByteRange(0x80, 0xEF), rapid.SampledFrom([]byte{0xF1, 0xF2, 0xF3, 0xF6, 0xF8, 0xFA, 0xFE, 0xF0})).Draw(t, "wfStatus")
	if st == 0xF0 {
		if buf < 2 {
			return []byte{0xF6}
		}
		n := rapid.IntRange(0, min(buf-2, 12)).Draw(t, "wfSyx")
		m := append([]byte{0xF0}, rapid.SliceOfN(rapid.ByteRange(0, 127), n, n).Draw(t, "wfSyxData")...)
		return append(m, 0xF7)
	}
	m := []byte{st}
	for i := 0; i < midiref.DataLen(st); i++ {
		m = append(m, rapid.ByteRange(0, 127).Draw(t, "wfData"))
	}
	return m
}

var random = ev.NewCheck("C06", "random-streams",
	"rapid: streams of up to ~4000 bytes built from segments (uniform random bytes over all 256 values, status-heavy noise, sysex of buffer size -3..+70 terminated or not and with real-time inside, running-status runs, undefined/unpaired bytes, well-formed messages, one in four of them repeated with the same data bytes on other channels), optionally followed by a well-formed suffix of 1..6 messages starting with an explicit non-real-time status; buffer sizes 3,4,8,64,1024; chunked as one call / byte-wise / random pieces; both observation points; in one case of four an earlier listening on the same port was left in the middle of a message (listen - stop - listen again must start with a fresh decoder); oracle = reference receiver (F9/FD don't-care), well-formedness, suffix decoded exactly; non-trivial as above; distinct by stream+chunking hash",
	genRandom, run)

func TestPropRandomStreams(t *testing.T) { random.Rapid(t, 3000, 10000) }

func TestReplay(t *testing.T) { ev.ReplayAll(t) }

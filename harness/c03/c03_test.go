// Package c03 decides property C03: the writer emits structurally valid, deterministic
// SMF 1.0 files, judged by an independent strict parser; the VLQ codec is enumerated.
package c03

import (
	"bytes"
	"fmt"
	"testing"

	"gitlab.com/gomidi/midi/v2/internal/utils"
	"gitlab.com/gomidi/midi/v2/smf"
	"gitlab.com/gomidi/midi/v2/zverif/adapt"
	"gitlab.com/gomidi/midi/v2/zverif/ev"
	"gitlab.com/gomidi/midi/v2/zverif/gen"
	"gitlab.com/gomidi/midi/v2/zverif/hx"
	"gitlab.com/gomidi/midi/v2/zverif/ref/smfref"
	"pgregory.net/rapid"
)

func TestMain(m *testing.M) { ev.Main(m) }

func run(c gen.APICase) (res ev.Result) {
	if len(c.Tracks) == 0 {
		res.Skip = true
		return
	}
	m := gen.ModelOf(c)
	var s *smf.SMF
	if p := ev.Try(func() { s = gen.BuildLib(c) }); p != "" {
		res.Violation = "building the value through the API: " + p
		return
	}
	var buf, buf2 bytes.Buffer
	var size, size2 int64
	var err, err2 error
	if p := ev.TryTimeout(ev.Watchdog, func() { size, err = s.WriteTo(&buf); size2, err2 = s.WriteTo(&buf2) }); p != "" {
		res.Violation = "WriteTo: " + p
		return
	}
	b := buf.Bytes()
	res.Key = b
	if err != nil || err2 != nil {
		res.Violation = fmt.Sprintf("WriteTo failed: %v / %v", err, err2)
		return
	}
	// classes / non-trivial
	set := map[string]bool{}
	for _, tr := range m.Tracks {
		bodyLen := 0
		for i, e := range tr {
			bodyLen += len(e.Msg) + 1
			if i > 0 && e.Msg[0] < 0xF0 && tr[i-1].Msg[0] >= 0xF0 && i > 1 && tr[i-2].Msg[0] == e.Msg[0] {
				set["running-status-opportunity-after-meta/sysex"] = true
			}
		}
		if bodyLen >= 128 {
			set["track-body>=128"] = true
		}
	}
	if len(m.Tracks) >= 2 {
		set[">=2-tracks"] = true
	}
	if c.NoRunningStatus {
		set["no-running-status"] = true
	}
	for k := range set {
		res.Classes = append(res.Classes, k)
	}
	res.Nontrivial = set["track-body>=128"] || set[">=2-tracks"] || set["running-status-opportunity-after-meta/sysex"]

	if size != int64(len(b)) || size2 != int64(buf2.Len()) {
		res.Violation = fmt.Sprintf("reported size %d (second write %d), bytes emitted %d (%d)", size, size2, len(b), buf2.Len())
		return
	}
	if !bytes.Equal(b, buf2.Bytes()) {
		res.Violation = fmt.Sprintf("writing the same value twice gave different bytes (%d vs %d bytes)", len(b), buf2.Len())
		return
	}
	st, perr := smfref.Strict(b)
	if perr != nil {
		res.Violation = fmt.Sprintf("strict parser rejects the written file: %v (file: %s)", perr, shortHex(b))
		return
	}
	f := st.File
	if f.Format != m.Format || f.Division != m.Division || int(f.NTracks) != len(m.Tracks) {
		res.Violation = fmt.Sprintf("header: format %d division %04X ntrks %d, model format %d division %04X tracks %d", f.Format, f.Division, f.NTracks, m.Format, m.Division, len(m.Tracks))
		return
	}
	if d := adapt.DiffTracks(f.Tracks(), m.Tracks); d != "" {
		res.Violation = "strict parser recovers different content: " + d
		return
	}
	if c.NoRunningStatus {
		for ti, ch := range f.Chunks {
			for ei, e := range ch.Events {
				if e.Running {
					res.Violation = fmt.Sprintf("NoRunningStatus is set but track %d event %d uses running status", ti, ei)
					return
				}
			}
		}
	}
	return
}

func shortHex(b []byte) string {
	if len(b) > 200 {
		return fmt.Sprintf("% X ...(%d bytes)", b[:200], len(b))
	}
	return fmt.Sprintf("% X", b)
}

var files = ev.NewCheck("C03", "written-files",
	"rapid: the C01 API-history generator (incl. one track in 120 with 1000..5000 Add calls) restricted to deltas <= 0x0FFFFFFF, both running-status modes; oracle = independent strict SMF 1.0 parser (header length 6, ntrks == number of MTrk chunks, exact chunk lengths, exactly one end-of-track per track and last, canonical VLQs, running status only where legal, no trailing bytes) must accept and recover the modelled content; reported size == bytes emitted; second write identical; non-trivial = track body >= 128 bytes or >= 2 tracks or a running-status opportunity right after a meta/sysex event; distinct by written bytes",
	func(t *rapid.T) gen.APICase {
		return gen.API(t, gen.APIOpts{MaxTracks: 6, MaxOps: 10, MaxPayload: 70000, MaxDelta: 0x0FFFFFFF, LongTracks: 120})
	}, run)

func TestPropWrittenFiles(t *testing.T) { files.Rapid(t, 2000, 50000) }

// very many tracks: the 16-bit track count of the header against the chunks that follow
var manyTracks = ev.NewCheck("C03", "many-tracks",
	"enumeration: values with 255, 256, 257, 300, 4000 (thorough: also 32768, 65535) small tracks through NewSMF1 / New, with and without running status; same strict-parser oracle as 'written-files' (in particular header track count == number of MTrk chunks)",
	nil, run)

func TestEnumManyTracks(t *testing.T) {
	if ev.Shard() != 0 {
		return
	}
	manyTracks.R.Exhaustive = true
	ns := []int{255, 256, 257, 300, 4000}
	if ev.Thorough() {
		ns = append(ns, 32768, 65535)
	}
	for _, n := range ns {
		for _, ctor := range []string{"NewSMF1", "New"} {
			c := gen.APICase{Ctor: ctor, NoRunningStatus: n%2 == 0}
			for i := 0; i < n; i++ {
				to := gen.TrackOps{Ops: []gen.Op{{Kind: "add", Delta: uint32(i % 3), Msgs: []hx.B{{0x90 | byte(i&15), byte(i % 128), byte(1 + i%100)}}}}}
				if i%2 == 0 {
					to.Ops = append(to.Ops, gen.Op{Kind: "close", Delta: uint32(i % 5)})
				}
				c.Tracks = append(c.Tracks, to)
			}
			manyTracks.One(t, c)
		}
	}
}

var exactSize = ev.NewCheck("C03", "exact-size-tracks",
	"enumeration: values whose last track body is exactly 65536, 131072, 196608 or 262144 bytes long, and one byte less / more; same strict-parser oracle as 'written-files' (chunk length == bytes of the body, nothing missing at the end)",
	nil, run)

func TestEnumExactSizeTracks(t *testing.T) {
	exactSize.R.Exhaustive = true
	i := 0
	for _, size := range []int{65536, 131072, 196608, 262144} {
		for _, d := range []int{-1, 0, 1} {
			i++
			if i%ev.Shards() != ev.Shard() {
				continue
			}
			exactSize.One(t, gen.ExactSizeTrack(size+d, i%2 == 1))
		}
	}
}

// ---- VLQ codec ------------------------------------------------------------------------

type VLQCase struct{ N uint32 }

func vlqLen(n uint32) int {
	l := 1
	for _, b := range []uint32{1 << 7, 1 << 14, 1 << 21, 1 << 28} {
		if n >= b {
			l++
		}
	}
	return l
}

// checkVLQ returns "" if VlqEncode(n) is the shortest encoding and decodes back to n.
func checkVLQ(n uint32, scratch *bytes.Reader) string {
	enc := utils.VlqEncode(n)
	if len(enc) != vlqLen(n) {
		return fmt.Sprintf("VlqEncode(%d) = % X: %d bytes, shortest encoding has %d", n, enc, len(enc), vlqLen(n))
	}
	for i, b := range enc {
		last := i == len(enc)-1
		if (b&0x80 != 0) == last {
			return fmt.Sprintf("VlqEncode(%d) = % X: wrong continuation bit in byte %d", n, enc, i)
		}
	}
	if enc[0] == 0x80 {
		return fmt.Sprintf("VlqEncode(%d) = % X: leading 0x80", n, enc)
	}
	if d := utils.VlqDecode(enc); d != n {
		return fmt.Sprintf("VlqDecode(VlqEncode(%d)) = %d", n, d)
	}
	scratch.Reset(enc)
	d, err := utils.ReadVarLength(scratch)
	if err != nil || d != n || scratch.Len() != 0 {
		return fmt.Sprintf("ReadVarLength(VlqEncode(%d)) = %d, %v (unread %d)", n, d, err, scratch.Len())
	}
	return ""
}

var vlq = ev.NewCheck("C03", "vlq-exhaustive",
	"exhaustive enumeration of the VLQ codec (reached through the nested module path): quick = every value within 2^16 of each length boundary (0, 2^7, 2^14, 2^21, 2^28) plus a stride over [0,2^28); thorough = all 2^28 legal values, sharded; oracle = length formula 1+[n>=2^7]+[n>=2^14]+[n>=2^21], continuation bits, VlqDecode and ReadVarLength return n; non-trivial = n >= 128 (multi-byte); cases distinct by construction",
	nil, func(c VLQCase) (res ev.Result) {
		res.Nontrivial = c.N >= 128
		res.Violation = checkVLQ(c.N, bytes.NewReader(nil))
		return
	})

func TestEnumVLQ(t *testing.T) {
	var scratch = bytes.NewReader(nil)
	var n, nt int64
	one := func(v uint32) bool {
		n++
		if v >= 128 {
			nt++
		}
		if s := checkVLQ(v, scratch); s != "" {
			vlq.R.AddEnum(n, nt, "")
			vlq.R.Fail(t, VLQCase{v}, "%s", s)
			return false
		}
		return true
	}
	if ev.Thorough() {
		vlq.R.Exhaustive = true
		lo, hi := ev.ShardRange(1 << 28)
		for v := lo; v < hi; v++ {
			if !one(uint32(v)) {
				return
			}
		}
		vlq.R.Sample(map[string]interface{}{"range": []int64{lo, hi}, "example": fmt.Sprintf("VlqEncode(%d) = % X", hi-1, utils.VlqEncode(uint32(hi-1)))})
	} else {
		// contiguous windows around every boundary, split over the shards, plus a stride
		var ranges [][2]int64
		for _, b := range []int64{0, 1 << 7, 1 << 14, 1 << 21, 1 << 28} {
			lo, hi := b-(1<<16), b+(1<<16)
			if lo < 0 {
				lo = 0
			}
			if hi > 1<<28 {
				hi = 1 << 28
			}
			ranges = append(ranges, [2]int64{lo, hi})
		}
		for _, r := range ranges {
			w := r[1] - r[0]
			lo := r[0] + w*int64(ev.Shard())/int64(ev.Shards())
			hi := r[0] + w*int64(ev.Shard()+1)/int64(ev.Shards())
			for v := lo; v < hi; v++ {
				if !one(uint32(v)) {
					return
				}
			}
		}
		for v := int64(ev.Shard()) * 977; v < 1<<28; v += 977 * int64(ev.Shards()) * 64 {
			if !one(uint32(v)) {
				return
			}
		}
		vlq.R.Sample(map[string]string{"example": fmt.Sprintf("VlqEncode(%d) = % X", 16384, utils.VlqEncode(16384))})
	}
	vlq.R.AddEnum(n, nt, "legal-28-bit")
}

// full 32-bit range the API accepts: boundary + sampled values must decode back (<= 5 bytes)
var vlq32 = ev.NewCheck("C03", "vlq-32bit",
	"rapid + boundaries: values of the full 32-bit range the API accepts (2^28..2^32-1): encoding has 5 bytes, correct continuation bits, decodes back; non-trivial = all",
	func(t *rapid.T) VLQCase {
		return VLQCase{rapid.OneOf(rapid.Uint32Range(1<<28, 0xFFFFFFFF), rapid.SampledFrom([]uint32{1 << 28, 1<<28 + 1, 1<<29 - 1, 1 << 31, 0xFFFFFFFE, 0xFFFFFFFF})).Draw(t, "n")}
	},
	func(c VLQCase) (res ev.Result) {
		res.Nontrivial = true
		res.Violation = checkVLQ(c.N, bytes.NewReader(nil))
		return
	})

func TestPropVLQ32(t *testing.T) { vlq32.Rapid(t, 20000, 1000000) }

func TestReplay(t *testing.T) { ev.ReplayAll(t) }

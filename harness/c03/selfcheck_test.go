package c03

import (
	"testing"

	"gitlab.com/gomidi/midi/v2/zverif/ev"
	"gitlab.com/gomidi/midi/v2/zverif/gen"
	"gitlab.com/gomidi/midi/v2/zverif/ref/smfref"
	"pgregory.net/rapid"
)

// The strict parser is the oracle of this property; this self-check makes sure it is not
// vacuous: it must accept canonical files built from the grammar and reject every kind of
// non-conformance the property lists. A failure here is a harness bug (exit 2), not a violation.
func TestSelfCheckStrictParser(t *testing.T) {
	if ev.Shard() != 0 {
		return
	}
	canonical := gen.FileOpts{MaxTracks: 4, MaxEvents: 8, MaxPayload: 300, Running: true, Escapes: true, UnknownMeta: true}
	ev.SetupRapid("C03/selfcheck", 300)
	rapid.Check(t, func(rt *rapid.T) {
		f := gen.File(rt, canonical)
		b := smfref.Build(f)
		if _, err := smfref.Strict(b); err != nil {
			rt.Fatalf("strict parser rejects a canonical file: %v", err)
		}
		damage := rapid.IntRange(0, 7).Draw(rt, "damage")
		var bad []byte
		switch damage {
		case 0: // trailing byte
			bad = append(append([]byte{}, b...), 0)
		case 1: // header track count too large
			f2 := f
			f2.NTracks++
			bad = smfref.Build(f2)
		case 2: // padded delta in the first track
			f2 := clone(f)
			ev0 := &f2.Chunks[0].Events[0]
			if len(smfref.VLQ(ev0.Delta)) == 4 {
				return
			}
			ev0.DeltaPad = 1
			bad = smfref.Build(f2)
		case 3: // alien chunk
			f2 := clone(f)
			f2.Chunks = append(f2.Chunks, smfref.Chunk{Type: [4]byte{'X', 'F', 'I', 'H'}, Data: []byte{1, 2, 3}})
			bad = smfref.Build(f2)
		case 4: // end-of-track missing
			f2 := clone(f)
			c := &f2.Chunks[0]
			c.Events = c.Events[:len(c.Events)-1]
			bad = smfref.Build(f2)
		case 5: // second end-of-track
			f2 := clone(f)
			c := &f2.Chunks[0]
			c.Events = append(c.Events, smfref.Event{Status: 0xFF, MetaType: 0x2F})
			bad = smfref.Build(f2)
		case 6: // chunk length one too large (steals a byte from what follows)
			bad = append([]byte{}, b...)
			bad[14+7]++
		default: // running status directly after a meta event
			f2 := clone(f)
			c := &f2.Chunks[0]
			c.Events = append([]smfref.Event{{Status: 0xFF, MetaType: 0x01, Data: []byte{'x'}}, {Status: 0x90, Data: []byte{1, 2}, Running: true}}, c.Events...)
			bad = smfref.Build(f2)
		}
		if _, err := smfref.Strict(bad); err == nil {
			rt.Fatalf("strict parser accepts a file with damage kind %d", damage)
		}
	})
}

func clone(f smfref.File) smfref.File {
	g := f
	g.Chunks = nil
	for _, c := range f.Chunks {
		c2 := c
		c2.Events = append([]smfref.Event{}, c.Events...)
		g.Chunks = append(g.Chunks, c2)
	}
	return g
}

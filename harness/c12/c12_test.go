// Package c12 decides property C12: playback sends every playable event once, in file
// order, never early.
package c12

import (
	"bytes"
	"fmt"
	"io"
	"os"
	"path/filepath"
	"sort"
	"sync"
	"testing"
	"time"

	"gitlab.com/gomidi/midi/v2/drivers"
	"gitlab.com/gomidi/midi/v2/smf"
	"gitlab.com/gomidi/midi/v2/zverif/adapt"
	"gitlab.com/gomidi/midi/v2/zverif/ev"
	"gitlab.com/gomidi/midi/v2/zverif/ref/tempo"
	"pgregory.net/rapid"
)

func TestMain(m *testing.M) { ev.Main(m) }

// Ev is one event of a generated track. Kind: "note" (unique channel message), "meta",
// "sysex", "tempo".
type Ev struct {
	Delta uint32
	Kind  string
	USPQ  uint32 `json:",omitempty"`
}

type Case struct {
	Res     uint16
	USPQ0   uint32 // initial tempo (track 0, tick 0)
	Tracks  [][]Ev
	Select  []int       // track selection passed to ReadTracksFrom (empty = all)
	Ports   map[int]int // track -> port index; key -1 = default port
	UsePlay bool        // use Play(out) (single default port) instead of MultiPlay
	// Twice: the same TracksReader is played a second time; both runs are checked
	Twice bool `json:",omitempty"`
	// FromFile: the file is read with smf.ReadTracks(path, ...) instead of ReadTracksFrom(reader, ...)
	FromFile bool `json:",omitempty"`
	// ExportFirst: the value behind the reader is exported once (SMF().WriteTo) before it is played
	ExportFirst bool `json:",omitempty"`
}

type sent struct {
	port int
	at   time.Duration
	data []byte
}

type recorder struct {
	mu    sync.Mutex
	start time.Time
	log   []sent
}

type fakeOut struct {
	idx  int
	rec  *recorder
	open bool
}

func (f *fakeOut) Open() error             { f.open = true; return nil }
func (f *fakeOut) Close() error            { f.open = false; return nil }
func (f *fakeOut) IsOpen() bool            { return f.open }
func (f *fakeOut) Number() int             { return f.idx }
func (f *fakeOut) String() string          { return fmt.Sprintf("fake-out-%d", f.idx) }
func (f *fakeOut) Underlying() interface{} { return nil }
func (f *fakeOut) Send(b []byte) error {
	at := time.Since(f.rec.start)
	f.rec.mu.Lock()
	f.rec.log = append(f.rec.log, sent{f.idx, at, append([]byte{}, b...)})
	f.rec.mu.Unlock()
	return nil
}

var _ drivers.Out = &fakeOut{}

type planned struct {
	track, idx int
	abs        int64
	msg        []byte
}

func run(c Case) (res ev.Result) {
	if len(c.Tracks) == 0 || c.Res == 0 {
		res.Skip = true
		return
	}
	// build the file through the API; model the channel messages with their absolute ticks
	s := smf.NewSMF1()
	s.TimeFormat = smf.MetricTicks(c.Res)
	var changes []tempo.Change
	var plan []planned
	id := 0
	ticksShared := map[int64]map[int]int{} // tick -> track -> count
	for ti, evs := range c.Tracks {
		var tr smf.Track
		var abs int64
		if ti == 0 && c.USPQ0 != 0 {
			tr.Add(0, []byte{0xFF, 0x51, 0x03, byte(c.USPQ0 >> 16), byte(c.USPQ0 >> 8), byte(c.USPQ0)})
			changes = append(changes, tempo.Change{AbsTick: 0, USPQ: int64(c.USPQ0)})
		}
		n := 0
		for _, e := range evs {
			abs += int64(e.Delta)
			switch e.Kind {
			case "note":
				// all seven kinds of channel message (note-on also with velocity 0), each message
				// unique through its channel / kind / data bytes
				ch, rest := byte((ti+id/8)&15), id/8 // all 16 channels
				var msg []byte
				switch id % 8 {
				case 0:
					msg = []byte{0x90 | ch, byte(rest % 128), byte(1 + (rest/128)%127)}
				case 1:
					msg = []byte{0x80 | ch, byte(rest % 128), byte((rest / 128) % 128)}
				case 2:
					msg = []byte{0x90 | ch, byte(rest % 128), 0} // a note-on that ends a note
				case 3:
					msg = []byte{0xA0 | ch, byte(rest % 128), byte((rest / 128) % 128)}
				case 4:
					msg = []byte{0xB0 | ch, byte(rest % 128), byte((rest / 128) % 128)}
				case 5:
					msg = []byte{0xC0 | ch, byte(rest % 128)}
				case 6:
					msg = []byte{0xD0 | ch, byte(rest % 128)}
				default:
					msg = []byte{0xE0 | ch, byte(rest % 128), byte((rest / 128) % 128)}
				}
				id++
				tr.Add(e.Delta, msg)
				plan = append(plan, planned{ti, n, abs, msg})
				n++
				if ticksShared[abs] == nil {
					ticksShared[abs] = map[int]int{}
				}
				ticksShared[abs][ti]++
			case "meta":
				if id%3 == 0 {
					tr.Add(e.Delta, smf.MetaUndefined(0x4B, []byte{0x90, 0x40, 0x40})) // a meta type the library does not know
				} else {
					tr.Add(e.Delta, smf.MetaMarker("x"))
				}
			case "sysex":
				tr.Add(e.Delta, []byte{0xF0, 0x7D, 0x01, 0xF7})
			case "tempo":
				if ti == 0 && e.USPQ > 0 {
					tr.Add(e.Delta, []byte{0xFF, 0x51, 0x03, byte(e.USPQ >> 16), byte(e.USPQ >> 8), byte(e.USPQ)})
					changes = append(changes, tempo.Change{AbsTick: abs, USPQ: int64(e.USPQ)})
				} else {
					tr.Add(e.Delta, smf.MetaText("t"))
				}
			}
		}
		tr.Close(0)
		s.Add(tr)
	}
	var buf bytes.Buffer
	if _, err := s.WriteTo(&buf); err != nil {
		res.Violation = "WriteTo: " + err.Error()
		return
	}
	// which tracks are selected and to which port they go
	selected := map[int]bool{}
	for _, t := range c.Select {
		selected[t] = true
	}
	portOf := func(track int) (int, bool) {
		if c.UsePlay {
			return 0, true
		}
		if p, ok := c.Ports[track]; ok {
			return p, true
		}
		if p, ok := c.Ports[-1]; ok {
			return p, true
		}
		return 0, false
	}
	var want []planned
	for _, p := range plan {
		if len(c.Select) > 0 && !selected[p.track] {
			continue
		}
		if _, ok := portOf(p.track); !ok {
			continue
		}
		want = append(want, p)
	}
	// non-trivial rule
	selTracks := map[int]bool{}
	for _, p := range want {
		selTracks[p.track] = true
	}
	shared := false
	for _, per := range ticksShared {
		multi, others := false, 0
		for tr, n := range per {
			if selTracks[tr] {
				if n >= 2 {
					multi = true
				}
				others++
			}
		}
		if multi && others >= 2 {
			shared = true
		}
	}
	res.Nontrivial = len(selTracks) >= 2 && len(want) > 12 && shared
	res.Classes = []string{fmt.Sprintf("tracks=%d", len(c.Tracks))}
	if c.UsePlay {
		res.Classes = append(res.Classes, "Play")
	} else {
		res.Classes = append(res.Classes, "MultiPlay")
	}
	if len(c.Select) > 0 {
		res.Classes = append(res.Classes, "track-selection")
	}
	if shared {
		res.Classes = append(res.Classes, "tick-shared-within-and-across-tracks")
	}

	rec := &recorder{}
	outs := []*fakeOut{{idx: 0, rec: rec}, {idx: 1, rec: rec}, {idx: 2, rec: rec}}
	var perr error
	var trd *smf.TracksReader
	runs := 1
	if c.Twice {
		runs = 2
		res.Classes = append(res.Classes, "played-twice")
	}
	for run := 0; run < runs; run++ {
		rec.mu.Lock()
		rec.log = nil
		rec.mu.Unlock()
		if v := playOnce(c, run, &trd, rec, outs, buf.Bytes(), &perr); v != "" {
			res.Violation = v
			return
		}
		if v := verify(c, run, rec, want, portOf, changes, perr); v != "" {
			res.Violation = v
			return
		}
	}
	return
}

func playOnce(c Case, run int, trd **smf.TracksReader, rec *recorder, outs []*fakeOut, file []byte, perr *error) string {
	failed := ev.TryTimeout(ev.Watchdog, func() {
		if *trd == nil {
			if c.FromFile {
				dir, err := os.MkdirTemp("", "verif-c12-")
				if err != nil {
					panic(err)
				}
				defer os.RemoveAll(dir)
				path := filepath.Join(dir, "play.mid")
				// the path held a file of the same size with other tempi a moment ago, which was
				// read from there as well
				if err := os.WriteFile(path, adapt.TempoDecoy(file), 0o644); err != nil {
					panic(err)
				}
				smf.ReadTracks(path, c.Select...).Do(func(smf.TrackEvent) {})
				if err := os.WriteFile(path, file, 0o644); err != nil {
					panic(err)
				}
				*trd = smf.ReadTracks(path, c.Select...)
			} else {
				*trd = smf.ReadTracksFrom(bytes.NewReader(file), c.Select...)
			}
		}
		if c.ExportFirst && run == 0 {
			if f := (*trd).SMF(); f != nil {
				if _, err := f.WriteTo(io.Discard); err != nil {
					panic(fmt.Sprintf("exporting the file that was read: %v", err))
				}
			}
		}
		rec.start = time.Now()
		if c.UsePlay {
			*perr = (*trd).Play(outs[0])
		} else {
			m := map[int]drivers.Out{}
			for t, p := range c.Ports {
				m[t] = outs[p%3]
			}
			*perr = (*trd).MultiPlay(m)
		}
	})
	if failed != "" {
		return fmt.Sprintf("playing (run %d): %s", run+1, failed)
	}
	return ""
}

func verify(c Case, run int, rec *recorder, want []planned, portOf func(int) (int, bool), changes []tempo.Change, perr error) string {
	var res struct{ Violation string }
	if perr != nil {
		if !c.UsePlay && len(c.Ports) == 0 {
			return "" // documented: no outs set is an error
		}
		return fmt.Sprintf("Play/MultiPlay failed (run %d): %v", run+1, perr)
	}
	// observed sends, sysex aside (neither required nor forbidden by the statement)
	var got []sent
	for _, x := range rec.log {
		if len(x.data) > 0 && x.data[0] == 0xFF {
			res.Violation = fmt.Sprintf("a meta event was sent to a port: % X", x.data)
			return res.Violation
		}
		if len(x.data) > 0 && (x.data[0] == 0xF0 || x.data[0] == 0xF7) {
			continue
		}
		got = append(got, x)
	}
	// every wanted message exactly once, on its port
	index := map[string]planned{}
	for _, p := range want {
		index[string(p.msg)] = p
	}
	seen := map[string]int{}
	lastIdx := map[int]int{}
	var lastSched float64 = -1
	for i, g := range got {
		p, ok := index[string(g.data)]
		if !ok {
			res.Violation = fmt.Sprintf("send %d: % X is not a channel message of a selected, mapped track", i, g.data)
			return res.Violation
		}
		seen[string(g.data)]++
		if seen[string(g.data)] > 1 {
			res.Violation = fmt.Sprintf("message % X (track %d) was sent %d times", g.data, p.track, seen[string(g.data)])
			return res.Violation
		}
		wp, _ := portOf(p.track)
		if g.port != wp%3 {
			res.Violation = fmt.Sprintf("message % X of track %d went to port %d, track is mapped to port %d", g.data, p.track, g.port, wp%3)
			return res.Violation
		}
		if li, ok := lastIdx[p.track]; ok && p.idx < li {
			res.Violation = fmt.Sprintf("track %d: message #%d (% X, tick %d) was sent after message #%d of the same track: file order not kept", p.track, p.idx, g.data, p.abs, li)
			return res.Violation
		}
		lastIdx[p.track] = p.idx
		sched, _ := tempo.Exact(int64(c.Res), changes, p.abs).Float64() // microseconds
		if sched < lastSched-1.5*float64(len(changes)+1) {
			res.Violation = fmt.Sprintf("send %d (% X, track %d, tick %d, scheduled %.1f us) follows a message scheduled at %.1f us: not merged by non-decreasing time", i, g.data, p.track, p.abs, sched, lastSched)
			return res.Violation
		}
		if sched > lastSched {
			lastSched = sched
		}
		// never early (the library truncates to whole microseconds and may round each tempo segment)
		if float64(g.at.Nanoseconds())/1000 < sched-float64(len(changes)+2) {
			res.Violation = fmt.Sprintf("message % X (track %d, tick %d) was sent %.1f us after the start of playback, its scheduled time is %.1f us", g.data, p.track, p.abs, float64(g.at.Nanoseconds())/1000, sched)
			return res.Violation
		}
	}
	if len(got) != len(want) {
		for _, p := range want {
			if seen[string(p.msg)] == 0 {
				res.Violation = fmt.Sprintf("message #%d of track %d (% X, tick %d) was never sent (%d of %d sent)", p.idx, p.track, p.msg, p.abs, len(got), len(want))
				return res.Violation
			}
		}
	}
	return res.Violation
}

// genRamp: a ritardando written as hundreds of tiny tempo steps (each within a hundredth of a
// BPM of its predecessor), notes during and after it; about 0.15 s of playback.
func genRamp(t *rapid.T) Case {
	// slow base tempo and a fine resolution: each step stays within a hundredth of a BPM of its
	// predecessor, yet the whole ramp slows the piece down by 5..12 %
	c := Case{Res: 15360, USPQ0: 2000000}
	n := rapid.IntRange(150, 400).Draw(t, "rampSteps")
	step := uint32(rapid.IntRange(300, 600).Draw(t, "rampStepMicroseconds"))
	var tr0, tr1 []Ev
	for i := 1; i <= n; i++ {
		tr0 = append(tr0, Ev{Delta: uint32(rapid.IntRange(0, 1).Draw(t, "stepDelta")), Kind: "tempo", USPQ: 2000000 + uint32(i)*step})
	}
	// few messages with long gaps after the ramp: the player sleeps between messages and every
	// sleep may overshoot, which would hide a schedule that runs too fast
	for i := 0; i < 3; i++ {
		tr0 = append(tr0, Ev{Delta: uint32(rapid.IntRange(400, 800).Draw(t, "afterRampDelta")), Kind: "note"})
	}
	for i := 0; i < 2; i++ {
		tr1 = append(tr1, Ev{Delta: uint32(rapid.IntRange(500, 900).Draw(t, "otherTrackDelta")), Kind: "note"})
	}
	c.Tracks = [][]Ev{tr0, tr1}
	c.Ports = map[int]int{-1: 0, 1: 1}
	return c
}

func genCase(t *rapid.T) Case {
	if rapid.IntRange(0, 24).Draw(t, "tempoRamp?") == 0 {
		return genRamp(t)
	}
	var c Case
	c.Res = 960
	// one tick lasts 1..50 microseconds
	c.USPQ0 = uint32(rapid.IntRange(960, 48000).Draw(t, "uspq0"))
	tickUS := int64(c.USPQ0)
	if rapid.IntRange(0, 4).Draw(t, "noInitialTempo?") == 0 {
		// no tempo event at tick 0: the file starts at the default 120 BPM (one tick = 520 us)
		// and the only tempo events are later ones (if any)
		c.USPQ0 = 0
		tickUS = 500000
	}
	ntr := rapid.SampledFrom([]int{1, 2, 2, 3, 3, 4, 5}).Draw(t, "nTracks")
	// a small set of ticks that recur in all tracks, so that the concatenation of the tracks is
	// not already ordered by time and many events share a tick
	nticks := rapid.IntRange(1, 6).Draw(t, "nSharedTicks")
	budget := int64(20000 * 960 / tickUS) // about 20 ms of ticks
	if budget < 10 {
		budget = 10
	}
	var grid []int64
	for i := 0; i < nticks; i++ {
		grid = append(grid, rapid.Int64Range(0, budget).Draw(t, "gridTick"))
	}
	sort.Slice(grid, func(i, j int) bool { return grid[i] < grid[j] })
	// one file in fifteen has a crowded tick: 100..300 events of every track on the same tick
	crowded := -1
	if rapid.IntRange(0, 14).Draw(t, "crowdedTick?") == 0 {
		crowded = rapid.IntRange(0, nticks-1).Draw(t, "crowdedGridIndex")
	}
	for ti := 0; ti < ntr; ti++ {
		var evs []Ev
		var abs int64
		for gi, g := range grid {
			if g < abs { // an off-grid note moved this track past the grid tick
				g = abs
			}
			k := rapid.SampledFrom([]int{0, 1, 2, 3, 5, 8, 14}).Draw(t, "eventsOnTick")
			if gi == crowded {
				k = rapid.IntRange(100, 300).Draw(t, "eventsOnCrowdedTick")
			}
			for j := 0; j < k; j++ {
				kind := rapid.SampledFrom([]string{"note", "note", "note", "note", "meta", "sysex", "tempo"}).Draw(t, "kind")
				e := Ev{Delta: uint32(g - abs), Kind: kind}
				if kind == "tempo" {
					// one tick lasts 1..50 us; now and then far below a microsecond
					e.USPQ = uint32(rapid.OneOf(rapid.IntRange(960, 48000), rapid.IntRange(960, 48000), rapid.IntRange(960, 48000), rapid.IntRange(1, 959)).Draw(t, "uspq"))
				}
				abs = g
				evs = append(evs, e)
			}
			if rapid.IntRange(0, 3).Draw(t, "offGrid?") == 0 && g+1 <= budget {
				d := rapid.OneOf(rapid.Just(int64(1)), rapid.Int64Range(1, 40)).Draw(t, "offGridDelta")
				evs = append(evs, Ev{Delta: uint32(g + d - abs), Kind: "note"})
				abs = g + d
			}
		}
		c.Tracks = append(c.Tracks, evs)
	}
	switch rapid.IntRange(0, 3).Draw(t, "selection") {
	case 0:
		sel := rapid.SliceOfNDistinct(rapid.IntRange(0, ntr-1), 1, ntr, func(i int) int { return i }).Draw(t, "select")
		sort.Ints(sel)
		c.Select = sel
	}
	c.UsePlay = rapid.IntRange(0, 3).Draw(t, "usePlay?") == 0
	c.Twice = rapid.IntRange(0, 4).Draw(t, "playTwice?") == 0
	c.FromFile = rapid.IntRange(0, 3).Draw(t, "fromFile?") == 0
	c.ExportFirst = rapid.IntRange(0, 4).Draw(t, "exportBeforePlaying?") == 0
	if !c.UsePlay {
		c.Ports = map[int]int{}
		if rapid.IntRange(0, 3).Draw(t, "default?") > 0 {
			c.Ports[-1] = rapid.IntRange(0, 2).Draw(t, "defaultPort")
		}
		for ti := 0; ti < ntr; ti++ {
			if rapid.Bool().Draw(t, "explicit?") {
				c.Ports[ti] = rapid.IntRange(0, 2).Draw(t, "port")
			}
		}
		if len(c.Ports) == 0 {
			c.Ports[-1] = 0
		}
	}
	return c
}

var play = ev.NewCheck("C12", "playback",
	"rapid: format-1 files with 1..5 tracks; 1..6 grid ticks recur in every track with 0..14 events each (one file in fifteen has a crowded tick with 100..300 events of every track) (so ticks are shared within and across tracks and the concatenation of the tracks is not ordered by time), off-grid notes, metas, sysex and tempo changes sprinkled in; resolution 960 with tempi making one tick 1..50 us, now and then far below one microsecond (in one case of five no tempo event at tick 0, i.e. 120 BPM until the first later tempo event), whole file <= ~25 ms; one file in 25 is a ritardando of 150..400 tempo steps of 300..600 us per quarter from 30 BPM at resolution 15360 (each step within 0.01 BPM of its predecessor, 5..12 % in total) with a few notes at long distances after it (about 0.3 s); channel messages of all seven kinds (note-on also with velocity 0), each unique by its bytes; Play(out) or MultiPlay with explicit, default (-1) and missing port mappings; optional track selection; read with ReadTracksFrom or (one case of four) from a temporary file with ReadTracks (the path held the same tracks with much faster tempi a moment ago and was read then as well); in one case of five the same TracksReader is played a second time and both runs are checked; in one case of five the value behind the reader is exported once (SMF().WriteTo) before it is played; oracle on recording fake out ports (instant = time.Since(start) inside Send): every channel message of a selected, mapped track exactly once on its port, no meta event ever, per-track send order == file order, global order non-decreasing in scheduled time (exact tempo-map integral), no send before its scheduled time; sysex filtered from the comparison; non-trivial = >= 2 selected tracks, > 12 messages and a tick shared by >= 2 events of one track and by another track; distinct by case hash",
	genCase, run)

func TestPropPlayback(t *testing.T) { play.Rapid(t, 150, 2000) }

func TestReplay(t *testing.T) { ev.ReplayAll(t) }

package c05

import (
	"encoding/json"
	"testing"

	"gitlab.com/gomidi/midi/v2/zverif/ev"
)

// FuzzC05: coverage guided search over raw bytes with the generic oracle of this property
// (thorough tier only, time boxed by the driver). Seeds: the literal files of the
// repository's tests and hostile constants.
func FuzzC05(f *testing.F) {
	var lit map[string]ev.Hex
	json.Unmarshal(repoFilesJSON, &lit)
	for _, v := range lit {
		f.Add([]byte(v))
	}
	f.Add([]byte("MThd\x00\x00\x00\x06\x00\x01\x00\x02\x00\x60MTrk\x00\x00\x00\x04\x00\xff\x2f\x00MTrk\x00\x00\x00\x08\x00\x90\x40\x40\x10\x40\x00\x00"))
	f.Add([]byte("MThd\x00\x00\x00\x06\x00\x00\x00\x01\xe7\x28MTrk\x00\x00\x00\x0b\x00\xff\x51\x03\x07\xa1\x20\x00\xff\x2f\x00"))
	f.Add([]byte("MThd\x00\x00\x00\x06\x00\x00\x00\x01\x00\x60MTrk\x00\x00\x00\x09\x00\xf0\xff\xff\xff\x7f\x01\x02\x03"))
	f.Add([]byte("MThd\x00\x00\x00\x06\x00\x01\xff\xff\x00\x60XXXX\xff\xff\xff\xffMTrk"))
	f.Fuzz(func(t *testing.T, data []byte) {
		if len(data) > 1<<16 {
			return
		}
		c := MutCase{Ops: []string{"fuzz"}, Input: data}
		if r := runMut(c); r.Violation != "" {
			mutants.R.Fail(t, c, "%s", r.Violation)
		}
	})
}

// Package c05 decides property C05: reading malformed or truncated SMF data fails cleanly
// and never fabricates.
package c05

import (
	"bytes"
	_ "embed"
	"encoding/binary"
	"encoding/json"
	"fmt"
	"sort"
	"testing"

	"gitlab.com/gomidi/midi/v2/smf"
	"gitlab.com/gomidi/midi/v2/zverif/adapt"
	"gitlab.com/gomidi/midi/v2/zverif/ev"
	"gitlab.com/gomidi/midi/v2/zverif/gen"
	"gitlab.com/gomidi/midi/v2/zverif/ref/smfref"
	"pgregory.net/rapid"
)

func TestMain(m *testing.M) { ev.Main(m) }

// envelope: legitimate reading costs about 270 bytes per input byte in the densest case and
// one bounded table for the 16-bit track count (<= 8 MiB); see DESIGN.md C05.
func envelope(n int) uint64 { return 16<<20 + 1024*uint64(n) }

type readResult struct {
	s   *smf.SMF
	err error
}

// generic is the oracle for arbitrary bytes: terminates, no panic, bounded allocation,
// returns an error or a value, and a returned value holds no empty (fabricated) message.
func generic(b []byte) (readResult, string) {
	var r readResult
	alloc, failed := ev.Measure(ev.Watchdog, func() { r.s, r.err = smf.ReadFrom(bytes.NewReader(b), adapt.ReadOpts(b)...) })
	if failed != "" {
		return r, "smf.ReadFrom: " + failed
	}
	if alloc > envelope(len(b)) {
		return r, fmt.Sprintf("smf.ReadFrom allocated %d bytes for an input of %d bytes (envelope %d)", alloc, len(b), envelope(len(b)))
	}
	if r.s == nil && r.err == nil {
		return r, "smf.ReadFrom returned neither a value nor an error"
	}
	if r.err == nil {
		for ti, tr := range r.s.Tracks {
			for ei, e := range tr {
				if len(e.Message) == 0 {
					return r, fmt.Sprintf("returned value holds an empty message (track %d event %d, delta %d): invented, not read", ti, ei, e.Delta)
				}
			}
		}
	}
	return r, ""
}

// ---- (a) every proper prefix of a valid file ------------------------------------------

type PrefixCase struct {
	Grammar *smfref.File `json:",omitempty"`
	API     *gen.APICase `json:",omitempty"`
	OnlyCut int          // -1: all prefixes
}

var prefixCounters = ev.New("C05", "prefix-points",
	"every (file, truncation offset) pair evaluated by check 'prefixes'; non-trivial = the prefix reaches beyond the 14 byte header and the first chunk header (>= 22 bytes), i.e. at least into the first event; distinct by construction per file")

func runPrefix(c PrefixCase) (res ev.Result) {
	var full []byte
	switch {
	case c.Grammar != nil:
		full = smfref.Build(*c.Grammar)
		res.Classes = append(res.Classes, "grammar-file")
	case c.API != nil && len(c.API.Tracks) > 0:
		var buf bytes.Buffer
		var err error
		if p := ev.Try(func() { _, err = gen.BuildLib(*c.API).WriteTo(&buf) }); p != "" || err != nil {
			res.Violation = fmt.Sprintf("WriteTo: %v %s", err, p)
			return
		}
		full = buf.Bytes()
		res.Classes = append(res.Classes, "written-file")
	default:
		res.Skip = true
		return
	}
	dec, err := smfref.Decode(full)
	if err != nil {
		panic("harness bug: reference decoder rejects generated file: " + err.Error())
	}
	orig := dec.File.Tracks()
	res.Key = full
	res.Nontrivial = len(full) > 22
	var n, nt int64
	defer func() { prefixCounters.AddEnum(n, nt, "") }()
	for cut := 0; cut < len(full); cut++ {
		if c.OnlyCut >= 0 && cut != c.OnlyCut {
			continue
		}
		n++
		if cut >= 22 {
			nt++
		}
		r, v := generic(full[:cut])
		if v != "" {
			res.Violation = fmt.Sprintf("prefix of %d/%d bytes: %s", cut, len(full), v)
			return
		}
		if r.err != nil {
			continue
		}
		got := adapt.Tracks(r.s)
		for i, tr := range got {
			if i >= len(orig) {
				if len(tr) != 0 {
					res.Violation = fmt.Sprintf("prefix of %d/%d bytes: track %d has %d events, the original has only %d tracks", cut, len(full), i, len(tr), len(orig))
					return
				}
				continue
			}
			if d := adapt.IsPrefix(tr, orig[i]); d != "" {
				res.Violation = fmt.Sprintf("prefix of %d/%d bytes: track %d is not a prefix of the original track: %s", cut, len(full), i, d)
				return
			}
		}
	}
	return
}

var prefixes = ev.NewCheck("C05", "prefixes",
	"rapid: valid files from the byte-level grammar (C02 domain, payloads <= 150 bytes, <= 3 tracks) and from the library's writer; per file EVERY proper prefix (crash point enumeration); oracle: watchdog 20 s, no panic, allocation <= 16 MiB + 1024 x len, (value|error), no empty message, and a returned value's tracks are event-for-event prefixes (delta and bytes) of the reference decoding of the untruncated file; per-prefix counts in part 'prefix-points'",
	func(t *rapid.T) PrefixCase {
		c := PrefixCase{OnlyCut: -1}
		if rapid.IntRange(0, 2).Draw(t, "grammar?") > 0 {
			o := gen.AllFreedoms
			o.MaxAlien = 300
			o.MaxPayload, o.MaxEvents, o.MaxTracks = 150, 7, 3
			f := gen.File(t, o)
			c.Grammar = &f
		} else {
			a := gen.API(t, gen.APIOpts{MaxTracks: 3, MaxOps: 6, MaxPayload: 150, MaxDelta: 0x0FFFFFFF})
			c.API = &a
		}
		return c
	}, runPrefix)

func TestPropPrefixes(t *testing.T) { prefixes.Rapid(t, 120, 400) }

// ---- (b) grammar aware mutations, (c) random bytes -------------------------------------

type MutCase struct {
	Ops   []string // names of the mutation operators that were applied (histogram)
	Input ev.Hex
}

func runMut(c MutCase) (res ev.Result) {
	res.Key = c.Input
	res.Classes = c.Ops
	// non-trivial: the input gets past the header and the first chunk magic
	res.Nontrivial = len(c.Input) >= 22 && string(c.Input[:4]) == "MThd"
	r1, v := generic(c.Input)
	if v != "" {
		res.Violation = v
		return
	}
	// the result is a function of the bytes: reading something else in between (a file that stops
	// in the middle of a track, then a complete one) must not change it
	smf.ReadFrom(bytes.NewReader(interruptedFile))
	r2, v2 := generic(c.Input)
	smf.ReadFrom(bytes.NewReader(completeFile))
	// ... and neither may what the caller does with a value it got: the first result is kept as
	// a copy, then every channel message of it is overwritten in place
	if r1.err == nil && r1.s != nil {
		keep := smf.New()
		for _, tr := range r1.s.Tracks {
			var cp smf.Track
			for _, e := range tr {
				cp = append(cp, smf.Event{Delta: e.Delta, Message: append(smf.Message{}, e.Message...)})
				if len(e.Message) > 0 && e.Message[0] < 0xF0 { // what transposing or re-channelling does
					for k := range e.Message {
						e.Message[k] ^= 0x15
					}
				}
			}
			keep.Tracks = append(keep.Tracks, cp)
		}
		r1.s = keep
	}
	r3, v3 := generic(c.Input)
	if v2 != "" || v3 != "" {
		res.Violation = "reading the same bytes again: " + v2 + v3
		return
	}
	for _, r := range []readResult{r2, r3} {
		if (r.err == nil) != (r1.err == nil) {
			res.Violation = fmt.Sprintf("reading the same bytes again after reading another file gives a different outcome: first err=%v, then err=%v", r1.err, r.err)
			return
		}
		if r.err == nil {
			if d := adapt.DiffTracks(adapt.Tracks(r.s), adapt.Tracks(r1.s)); d != "" {
				res.Violation = "reading the same bytes again after reading another file gives a different value: " + d
				return
			}
		}
	}
	return
}

var interruptedFile = []byte("MThd\x00\x00\x00\x06\x00\x01\x00\x01\x00\x60MTrk\x00\x00\x00\x10\x00\x93\x40\x40\x10\x41")
var completeFile = []byte("MThd\x00\x00\x00\x06\x00\x00\x00\x01\x00\x60MTrk\x00\x00\x00\x04\x00\xff\x2f\x00")

var hostileSplices = [][]byte{
	{0x00, 0xFF, 0x01, 0x90, 0x80, 0x80, 0x00},       // text meta declaring 2^25 bytes
	{0x00, 0xFF, 0x7F, 0xC0, 0x80, 0x80, 0x00},       // sequencer data declaring 2^27 bytes
	{0x00, 0xF0, 0xFF, 0xFF, 0xFF, 0x7F},             // sysex declaring 2^28-1 bytes
	{0x00, 0xF7, 0xA0, 0x80, 0x80, 0x00},             // escape declaring 2^26 bytes
	{0x00, 0xFF, 0x51, 0xFF, 0xFF, 0xFF, 0x7F},       // tempo declaring 2^28-1 bytes
	{0x00, 0xFF, 0x2F, 0x00},                         // early end-of-track
	{0x00, 0xFF, 0x2F, 0x00, 0x00, 0xFF, 0x2F, 0x00}, // duplicated end-of-track
	{0x00, 0xF8}, {0x00, 0xF1, 0x05}, {0x00, 0xF4}, {0x00, 0xFE}, {0x00, 0x45}, {0x00, 0x00},
	{0x00, 0x90}, {0x00, 0xFF}, {0x00, 0xFF, 0x51}, {0xFF, 0xFF, 0xFF, 0xFF, 0xFF, 0xFF},
	[]byte("MTrk\x00\x00\x00\x04"), []byte("MThd\x00\x00\x00\x06\x00\x01\x00\x01\x00\x60"), []byte("XXXX\xff\xff\xff\xff"),
}

func genMut(t *rapid.T) MutCase {
	var c MutCase
	var b []byte
	base := rapid.IntRange(0, 9).Draw(t, "base")
	switch {
	case base == 0: // random bytes
		b = rapid.SliceOfN(rapid.Byte(), 0, 200).Draw(t, "random")
		c.Ops = append(c.Ops, "random-bytes")
	case base == 1: // valid header + random body
		b = []byte("MThd\x00\x00\x00\x06")
		b = binary.BigEndian.AppendUint16(b, rapid.SampledFrom([]uint16{0, 1, 2, 3, 0xFFFF}).Draw(t, "fmt"))
		b = binary.BigEndian.AppendUint16(b, rapid.SampledFrom([]uint16{0, 1, 2, 3, 0x7FFF, 0x8000, 0x8001, 0xFFFF}).Draw(t, "ntrks"))
		b = binary.BigEndian.AppendUint16(b, rapid.Uint16().Draw(t, "div"))
		b = append(b, "MTrk"...)
		b = binary.BigEndian.AppendUint32(b, rapid.Uint32().Draw(t, "len"))
		b = append(b, rapid.SliceOfN(rapid.OneOf(rapid.Byte(), rapid.SampledFrom([]byte{0, 0xFF, 0x2F, 0x90, 0xF0, 0xF7, 0x80, 0x7F})), 0, 120).Draw(t, "body")...)
		c.Ops = append(c.Ops, "header+random-body")
	default:
		o := gen.AllFreedoms
		o.MaxAlien = 300
		o.MaxPayload, o.MaxEvents, o.MaxTracks = 100, 7, 3
		f := gen.File(t, o)
		// grammar level mutations first
		if rapid.IntRange(0, 5).Draw(t, "dropEOT?") == 0 {
			for i := range f.Chunks {
				if f.Chunks[i].IsTrack && rapid.Bool().Draw(t, "dropThis") {
					f.Chunks[i].Events = f.Chunks[i].Events[:len(f.Chunks[i].Events)-1]
					c.Ops = append(c.Ops, "remove-end-of-track")
				}
			}
		}
		if rapid.IntRange(0, 4).Draw(t, "hdr?") == 0 {
			switch rapid.IntRange(0, 3).Draw(t, "hdrOp") {
			case 0:
				f.NTracks = rapid.SampledFrom([]uint16{0, 0, f.NTracks + 1, f.NTracks + 7, 0x7FFF, 0x8000, 0xFFFF}).Draw(t, "ntrks")
				c.Ops = append(c.Ops, "header-ntrks")
			case 1:
				f.Format = rapid.SampledFrom([]uint16{3, 4, 255, 256, 0xFFFF}).Draw(t, "format")
				c.Ops = append(c.Ops, "header-format")
			case 2:
				f.Division = 0x8000 | rapid.Uint16().Draw(t, "smpteBits")
				c.Ops = append(c.Ops, "header-smpte-bytes")
			default:
				f.Division = 0
				c.Ops = append(c.Ops, "header-division-0")
			}
		}
		b = smfref.Build(f)
		c.Ops = append(c.Ops, "valid-file")
	}
	nmut := rapid.IntRange(0, 4).Draw(t, "nMut")
	for i := 0; i < nmut && len(b) > 0; i++ {
		pos := rapid.IntRange(0, len(b)).Draw(t, "pos")
		if rapid.IntRange(0, 2).Draw(t, "posInBody?") > 0 && len(b) > 22 {
			pos = 22 + pos%(len(b)-21)
		}
		switch rapid.IntRange(0, 8).Draw(t, "mutOp") {
		case 0:
			if pos < len(b) {
				b[pos] = rapid.Byte().Draw(t, "newByte")
				c.Ops = append(c.Ops, "flip-byte")
			}
		case 1:
			if pos < len(b) {
				b[pos] ^= 0x80
				c.Ops = append(c.Ops, "swap-status/data-class")
			}
		case 2:
			x := rapid.SampledFrom([]byte{0x00, 0x45, 0x7F, 0xF1, 0xF2, 0xF3, 0xF4, 0xF5, 0xF6, 0xF8, 0xF9, 0xFA, 0xFC, 0xFE, 0x80, 0xC0}).Draw(t, "stray")
			b = append(b[:pos:pos], append([]byte{x}, b[pos:]...)...)
			c.Ops = append(c.Ops, "insert-stray-byte")
		case 3:
			if pos < len(b) {
				b = append(b[:pos:pos], b[pos+1:]...)
				c.Ops = append(c.Ops, "delete-byte")
			}
		case 4, 5:
			s := rapid.SampledFrom(hostileSplices).Draw(t, "splice")
			b = append(b[:pos:pos], append(append([]byte{}, s...), b[pos:]...)...)
			c.Ops = append(c.Ops, "splice-hostile-sequence")
			if rapid.Bool().Draw(t, "cutAfterSplice") {
				b = b[:pos+len(s)]
				c.Ops = append(c.Ops, "truncate-after-splice")
			}
		case 6:
			if i := bytes.Index(b, []byte("MTrk")); i >= 0 {
				b[i+rapid.IntRange(0, 3).Draw(t, "magicPos")] ^= byte(rapid.IntRange(1, 255).Draw(t, "magicXor"))
				c.Ops = append(c.Ops, "damage-chunk-magic")
			}
		case 7:
			if i := bytes.Index(b, []byte("MTrk")); i >= 0 && i+8 <= len(b) {
				binary.BigEndian.PutUint32(b[i+4:], rapid.SampledFrom([]uint32{0, 1, 0x7FFFFFFF, 0x80000000, 0xFFFFFFFF}).Draw(t, "chunkLen"))
				c.Ops = append(c.Ops, "chunk-length")
			}
		default:
			b = b[:pos]
			c.Ops = append(c.Ops, "truncate")
		}
	}
	c.Input = b
	return c
}

var mutants = ev.NewCheck("C05", "mutations",
	"rapid: random byte strings, valid header + random body, and grammar-aware mutations of valid files: byte flips, status/data class swaps, inserted stray data or system bytes, deleted bytes, spliced hostile sequences (declared lengths 2^25..2^28-1 with the payload absent, early/duplicated end-of-track, chunk headers), header fields (ntrks 0 / too large, format >= 3, arbitrary SMPTE bytes, division 0), removed end-of-track, damaged chunk magic, chunk lengths, truncation; oracle: watchdog, no panic, allocation envelope, (value|error), no empty message in a returned value, and the same bytes read again after an interrupted and after a complete read of other files give the same outcome, also after the caller has overwritten every channel message of the first result in place (no state leaks between reads, results are the caller's); non-trivial = input starts with MThd and is >= 22 bytes; distinct by input bytes; operator histogram in classes",
	genMut, runMut)

var boundary = ev.NewCheck("C05", "boundary-inputs",
	"hand written boundary inputs (ntrks 0 with a track chunk, stray data/system bytes where a status is required, garbage SMPTE bytes, format 3, declared lengths 2^25..2^28 without payload, cut-off channel messages, over-long VLQ, tempo 0, huge alien chunk length; declared payload lengths 2^21..2^28-1 with 65535..200000 real bytes behind them; 32767..65535 minimal track chunks really present; 100..3000 track chunks each declaring 2^20..2^32-1 bytes but holding four) and the literal files of the repository's tests; same oracle as 'mutations'",
	nil, runMut)

func TestPropMutations(t *testing.T) { mutants.Rapid(t, 6000, 30000) }

// ---- hand written boundary inputs -------------------------------------------------------

//go:embed repofiles.json
var repoFilesJSON []byte

func TestEnumBoundaryInputs(t *testing.T) {
	if ev.Shard() != 0 {
		return
	}
	hdr := func(format, ntrks, div uint16) []byte {
		b := []byte("MThd\x00\x00\x00\x06")
		b = binary.BigEndian.AppendUint16(b, format)
		b = binary.BigEndian.AppendUint16(b, ntrks)
		return binary.BigEndian.AppendUint16(b, div)
	}
	trk := func(body ...byte) []byte {
		b := []byte("MTrk")
		b = binary.BigEndian.AppendUint32(b, uint32(len(body)))
		return append(b, body...)
	}
	cat := func(parts ...[]byte) []byte { return bytes.Join(parts, nil) }
	inputs := map[string][]byte{
		"empty":                  {},
		"ntrks0+MTrk":            cat(hdr(1, 0, 96), trk(0, 0xFF, 0x2F, 0)),
		"ntrks0":                 hdr(1, 0, 96),
		"stray-data-byte":        cat(hdr(0, 1, 96), trk(0, 0x45, 0x10, 0, 0xFF, 0x2F, 0)),
		"stray-F8":               cat(hdr(0, 1, 96), trk(0, 0xF8, 0, 0xFF, 0x2F, 0)),
		"stray-F1":               cat(hdr(0, 1, 96), trk(0, 0xF1, 0x10, 0, 0xFF, 0x2F, 0)),
		"smpte-garbage":          cat(hdr(0, 1, 0x8000), trk(0, 0xFF, 0x51, 3, 7, 0xA1, 0x20, 0, 0xFF, 0x2F, 0)),
		"format-3":               cat(hdr(3, 1, 96), trk(0, 0xFF, 0x2F, 0)),
		"declared-2^28-meta":     cat(hdr(0, 1, 96), trk(0, 0xFF, 0x01, 0xFF, 0xFF, 0xFF, 0x7F, 'a')),
		"declared-2^25-sysex":    cat(hdr(0, 1, 96), trk(0, 0xF0, 0x90, 0x80, 0x80, 0x00, 1, 2, 3)),
		"declared-2^28-escape":   cat(hdr(0, 1, 96), trk(0, 0xF7, 0xFF, 0xFF, 0xFF, 0x7F)),
		"truncated-note":         cat(hdr(0, 1, 96), trk(0, 0x90, 0x40)),
		"truncated-note-running": cat(hdr(0, 1, 96), trk(0, 0x90, 0x40, 0x40, 0, 0x41)),
		"vlq-16-bytes":           cat(hdr(0, 1, 96), trk(0xFF, 0xFF, 0xFF, 0xFF, 0xFF, 0xFF, 0xFF, 0xFF, 0xFF, 0xFF, 0x7F, 0x90, 1, 2, 0, 0xFF, 0x2F, 0)),
		"65535-declared-1-track": cat(hdr(1, 65535, 96), trk(0, 0xFF, 0x2F, 0)),
		"tempo-zero":             cat(hdr(0, 1, 96), trk(0, 0xFF, 0x51, 3, 0, 0, 0, 10, 0xFF, 0x51, 3, 0, 0, 1, 5, 0xFF, 0x2F, 0)),
		"tempo-short":            cat(hdr(0, 1, 96), trk(0, 0xFF, 0x51, 1, 9, 0, 0xFF, 0x2F, 0)),
		"alien-huge-length":      cat(hdr(0, 1, 96), []byte("XFIH\xff\xff\xff\xff"), trk(0, 0xFF, 0x2F, 0)),
	}
	// a declared length far beyond the data, with MORE than 64 KiB of real data behind it: a reader
	// that grows its buffer while data keeps coming must not jump to the declared size
	filler := func(n int) []byte {
		b := make([]byte, n)
		for i := range b {
			b[i] = byte(i*7) & 0x7F
		}
		return b
	}
	for _, kind := range []struct {
		name string
		head []byte
	}{{"meta", []byte{0, 0xFF, 0x01}}, {"sysex", []byte{0, 0xF0}}, {"escape", []byte{0, 0xF7}}, {"seqdata", []byte{0, 0xFF, 0x7F}}} {
		for _, declared := range []uint32{1 << 21, 1 << 24, 1 << 26, 1 << 27, 1<<28 - 1} {
			for _, real := range []int{65535, 65536, 65537, 70000, 131073, 200000} {
				body := append(append([]byte{}, kind.head...), smfref.VLQ(declared)...)
				body = append(body, filler(real)...)
				b := cat(hdr(0, 1, 96), []byte("MTrk"), binary.BigEndian.AppendUint32(nil, uint32(len(body))), body)
				inputs[fmt.Sprintf("declared-%d-%s-with-%d-real-bytes", declared, kind.name, real)] = b
			}
		}
	}
	// very many track chunks really present (16-bit counters), and many chunks that declare far
	// more than they hold (memory reserved per declared length adds up)
	for _, n := range []int{32767, 32768, 32769, 40000, 65535} {
		b := hdr(1, uint16(n), 96)
		one := trk(0, 0xFF, 0x2F, 0)
		for i := 0; i < n; i++ {
			b = append(b, one...)
		}
		inputs[fmt.Sprintf("%d-minimal-tracks", n)] = b
	}
	for _, n := range []int{100, 400, 800, 3000} {
		for _, declared := range []uint32{1 << 20, 1 << 24, 0x7FFFFFFF, 0xFFFFFFFF} {
			b := hdr(1, uint16(n), 96)
			for i := 0; i < n; i++ {
				b = append(b, "MTrk"...)
				b = binary.BigEndian.AppendUint32(b, declared)
				b = append(b, 0, 0xFF, 0x2F, 0)
			}
			inputs[fmt.Sprintf("%d-tracks-declaring-%d-bytes-each", n, declared)] = b
		}
	}
	var lit map[string]ev.Hex
	json.Unmarshal(repoFilesJSON, &lit)
	for k, v := range lit {
		inputs["repo-"+k] = v
	}
	names := make([]string, 0, len(inputs))
	for name := range inputs {
		names = append(names, name)
	}
	sort.Strings(names)
	boundary.R.Exhaustive = true
	for _, name := range names {
		name := name
		t.Run(name, func(t *testing.T) {
			boundary.One(t, MutCase{Ops: []string{"boundary:" + name}, Input: inputs[name]})
		})
	}
}

func TestReplay(t *testing.T) { ev.ReplayAll(t) }

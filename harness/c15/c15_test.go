// Package c15 decides property C15: meta-event constructors and accessors are mutually
// inverse.
package c15

import (
	"bytes"
	"fmt"
	"math"
	"testing"

	"gitlab.com/gomidi/midi/v2/smf"
	"gitlab.com/gomidi/midi/v2/zverif/ev"
	"gitlab.com/gomidi/midi/v2/zverif/gen"
	"pgregory.net/rapid"
)

func TestMain(m *testing.M) { ev.Main(m) }

// Case is one constructor call. Kind names the constructor.
type Case struct {
	Kind          string
	Payload       ev.Hex  `json:",omitempty"` // text / sequencer data
	A, B, C, D, E int     `json:",omitempty"`
	Flag1, Flag2  bool    `json:",omitempty"`
	BPM           float64 `json:",omitempty"`
	USPQ          uint32  `json:",omitempty"` // tempo given as field value: bpm = 6e7/USPQ
}

var textKinds = map[string]struct {
	typ  byte
	ctor func(string) smf.Message
	get  func(smf.Message, *string) bool
}{
	"Lyric":      {0x05, smf.MetaLyric, smf.Message.GetMetaLyric},
	"Copyright":  {0x02, smf.MetaCopyright, smf.Message.GetMetaCopyright},
	"Cuepoint":   {0x07, smf.MetaCuepoint, smf.Message.GetMetaCuepoint},
	"Device":     {0x09, smf.MetaDevice, smf.Message.GetMetaDevice},
	"Instrument": {0x04, smf.MetaInstrument, smf.Message.GetMetaInstrument},
	"Marker":     {0x06, smf.MetaMarker, smf.Message.GetMetaMarker},
	"Program":    {0x08, smf.MetaProgram, smf.Message.GetMetaProgramName},
	"Text":       {0x01, smf.MetaText, smf.Message.GetMetaText},
	"TrackName":  {0x03, smf.MetaTrackSequenceName, smf.Message.GetMetaTrackName},
}
var textNames = []string{"Lyric", "Copyright", "Cuepoint", "Device", "Instrument", "Marker", "Program", "Text", "TrackName"}

// parseMeta is the independent well-formedness check: FF type VLQ(len) payload, exact length.
func parseMeta(m []byte) (typ byte, payload []byte, err string) {
	if len(m) < 3 || m[0] != 0xFF {
		return 0, nil, "does not start with FF type length"
	}
	typ = m[1]
	var n uint32
	i := 2
	for k := 0; ; k++ {
		if i >= len(m) {
			return typ, nil, "length field runs past the end"
		}
		if k == 0 && m[i] == 0x80 {
			return typ, nil, "non-minimal length field"
		}
		if k == 4 {
			return typ, nil, "length field longer than 4 bytes"
		}
		n = n<<7 | uint32(m[i]&0x7F)
		i++
		if m[i-1]&0x80 == 0 {
			break
		}
	}
	if int(n) != len(m)-i {
		return typ, nil, fmt.Sprintf("declared length %d, %d payload bytes follow", n, len(m)-i)
	}
	return typ, m[i:], ""
}

// accepting returns the names of all meta accessors that accept m.
func accepting(m smf.Message) []string {
	var out []string
	var s string
	var f float64
	var x, y, z, w, q uint8
	var u16 uint16
	var bt []byte
	var b1, b2 bool
	for _, n := range textNames {
		if textKinds[n].get(m, &s) {
			out = append(out, n)
		}
	}
	add := func(n string, ok bool) {
		if ok {
			out = append(out, n)
		}
	}
	add("SequencerData", m.GetMetaSeqData(&bt))
	add("Channel", m.GetMetaChannel(&x))
	add("Port", m.GetMetaPort(&x))
	add("SequenceNo", m.GetMetaSeqNumber(&u16))
	add("SMPTE", m.GetMetaSMPTEOffsetMsg(&x, &y, &z, &w, &q))
	add("TimeSig", m.GetMetaTimeSig(&x, &y, &z, &w))
	add("Key", m.GetMetaKeySig(&x, &y, &b1, &b2))
	add("Tempo", m.GetMetaTempo(&f))
	return out
}

// circle of fifths: tonic pitch class for (accidentals, flat, major)
func tonic(num int, flat, major bool) int {
	t := (7 * num) % 12
	if flat {
		t = (5 * num) % 12
	}
	if !major {
		t = (t + 9) % 12
	}
	return t
}

// named keys: expectation computed from the name (music theory), not read from the library
var namedKeys = map[string]func() smf.Message{
	"CMaj": smf.CMaj, "DMaj": smf.DMaj, "EMaj": smf.EMaj, "FsharpMaj": smf.FsharpMaj, "GMaj": smf.GMaj, "AMaj": smf.AMaj, "BMaj": smf.BMaj,
	"FMaj": smf.FMaj, "BbMaj": smf.BbMaj, "EbMaj": smf.EbMaj, "AbMaj": smf.AbMaj, "DbMaj": smf.DbMaj, "GbMaj": smf.GbMaj,
	"AMin": smf.AMin, "BMin": smf.BMin, "CsharpMin": smf.CsharpMin, "DsharpMin": smf.DsharpMin, "EMin": smf.EMin, "FsharpMin": smf.FsharpMin,
	"GsharpMin": smf.GsharpMin, "DMin": smf.DMin, "GMin": smf.GMin, "CMin": smf.CMin, "FMin": smf.FMin, "BbMin": smf.BbMin, "EbMin": smf.EbMin,
}

// signature of a named key: accidentals (positive sharps, negative flats) by the circle of fifths
var keySignatures = map[string]int{
	"CMaj": 0, "GMaj": 1, "DMaj": 2, "AMaj": 3, "EMaj": 4, "BMaj": 5, "FsharpMaj": 6,
	"FMaj": -1, "BbMaj": -2, "EbMaj": -3, "AbMaj": -4, "DbMaj": -5, "GbMaj": -6,
	"AMin": 0, "EMin": 1, "BMin": 2, "FsharpMin": 3, "CsharpMin": 4, "GsharpMin": 5, "DsharpMin": 6,
	"DMin": -1, "GMin": -2, "CMin": -3, "FMin": -4, "BbMin": -5, "EbMin": -6,
}
var pitchClass = map[byte]int{'C': 0, 'D': 2, 'E': 4, 'F': 5, 'G': 7, 'A': 9, 'B': 11}

func pcOfName(n string) int {
	pc := pitchClass[n[0]]
	rest := n[1 : len(n)-3]
	switch rest {
	case "sharp":
		pc++
	case "b":
		pc += 11
	}
	return pc % 12
}

func run(c Case) (res ev.Result) {
	var m smf.Message
	var wantTyp byte
	var wantPayload []byte
	var wantAccessor string
	build := func() {
		switch c.Kind {
		case "SequencerData":
			m = smf.MetaSequencerData(append([]byte{}, c.Payload...))
			wantTyp, wantPayload, wantAccessor = 0x7F, c.Payload, "SequencerData"
		case "Channel":
			m = smf.MetaChannel(uint8(c.A))
			wantTyp, wantPayload, wantAccessor = 0x20, []byte{byte(c.A)}, "Channel"
		case "Port":
			m = smf.MetaPort(uint8(c.A))
			wantTyp, wantPayload, wantAccessor = 0x21, []byte{byte(c.A)}, "Port"
		case "SequenceNo":
			m = smf.MetaSequenceNo(uint16(c.A))
			wantTyp, wantPayload, wantAccessor = 0x00, []byte{byte(c.A >> 8), byte(c.A)}, "SequenceNo"
		case "SMPTE":
			m = smf.MetaSMPTE(byte(c.A), byte(c.B), byte(c.C), byte(c.D), byte(c.E))
			wantTyp, wantPayload, wantAccessor = 0x54, []byte{byte(c.A), byte(c.B), byte(c.C), byte(c.D), byte(c.E)}, "SMPTE"
		case "TimeSig":
			m = smf.MetaTimeSig(uint8(c.A), uint8(c.B), uint8(c.C), uint8(c.D))
			wantAccessor, wantTyp = "TimeSig", 0x58
		case "Meter":
			m = smf.MetaMeter(uint8(c.A), uint8(c.B))
			wantAccessor, wantTyp = "TimeSig", 0x58
		case "Key":
			m = smf.MetaKey(uint8(c.E), c.Flag1, uint8(c.A), c.Flag2)
			wantAccessor, wantTyp = "Key", 0x59
		case "Tempo":
			m = smf.MetaTempo(c.bpm())
			wantAccessor, wantTyp = "Tempo", 0x51
		default:
			if f, ok := namedKeys[c.Kind]; ok {
				m = f()
				wantAccessor, wantTyp = "Key", 0x59
				return
			}
			tk := textKinds[c.Kind]
			m = tk.ctor(string(c.Payload))
			wantTyp, wantPayload, wantAccessor = tk.typ, c.Payload, c.Kind
		}
	}
	// an unrelated, damaged event is decoded first (a text and a data event that announce more
	// bytes than they carry): what the accessors do with it is not this property's business, but
	// it must leave nothing behind that shows up in the next, well-formed event
	damaged := func() {
		ev.Try(func() {
			var junk string
			var jb []byte
			var n uint8
			smf.Message{0xFF, 0x01, 0x09, 'o', 'o', 'p', 's'}.GetMetaText(&junk)
			smf.Message{0xFF, 0x05, 0x81, 0x00, 'l', 'a'}.GetMetaLyric(&junk)
			smf.Message{0xFF, 0x7F, 0x09, 1, 2, 3}.GetMetaSeqData(&jb)
			smf.Message{0xFF, 0x58, 0x04, 3}.GetMetaMeter(&n, &n)
			_ = smf.Message{0xFF, 0x03, 0x7F, 'x'}.String()
		})
	}
	damaged()
	// the caller owns a message it got and may append to it: build the same message once, append
	// to it, and only then build the message under test
	ev.Try(func() {
		build()
		_ = append(m, 0xEE, 0xEE, 0xEE, 0xEE)
		for i := range m {
			m[i] ^= 0xFF // ... and may overwrite what it got
		}
		m = nil
	})
	if p := ev.Try(build); p != "" {
		res.Violation = "constructor Meta" + c.Kind + ": " + p
		return
	}
	// the message is held while further messages of the same kind are constructed: results of
	// different calls must not share memory
	held := append([]byte{}, m...)
	if p := ev.Try(func() {
		mine := m
		d := c
		d.A, d.B, d.C, d.D, d.E = (c.A+1)%128, (c.B+1)%128, (c.C+3)%128, (c.D+5)%128, (c.E+7)%8
		if d.B == 0 || (c.Kind == "TimeSig" || c.Kind == "Meter") {
			d.B = c.B // keep a legal denominator
		}
		d.USPQ, d.BPM = c.USPQ/2+1, c.BPM/2+4
		d.Flag1, d.Flag2 = !c.Flag1, !c.Flag2
		d.Payload = append(append([]byte{}, c.Payload...), 0x55)
		saved, st, sp, sa := c, wantTyp, wantPayload, wantAccessor
		c = d
		build()
		c, wantTyp, wantPayload, wantAccessor = saved, st, sp, sa
		m = mine
	}); p != "" {
		res.Violation = "second constructor call: " + p
		return
	}
	if !bytes.Equal(m, held) {
		res.Violation = fmt.Sprintf("Meta%s: the message returned by an earlier call changed when the constructor was called again: % X -> % X", c.Kind, clip(held), clip(m))
		return
	}
	res.Classes = []string{c.Kind}
	if _, named := namedKeys[c.Kind]; named {
		res.Classes = []string{"named-key"}
	}
	_, isText := textKinds[c.Kind]
	res.Nontrivial = !isText || len(c.Payload) >= 128
	if len(c.Payload) >= 128 {
		res.Classes = append(res.Classes, "payload>=128")
	}
	if len(c.Payload) >= 16384 {
		res.Classes = append(res.Classes, "payload>=16384")
	}
	// 1. well formed
	typ, payload, perr := parseMeta(m)
	if perr != "" {
		res.Violation = fmt.Sprintf("Meta%s: message % X is not a well formed meta event: %s", c.Kind, clip(m), perr)
		return
	}
	if typ != wantTyp {
		res.Violation = fmt.Sprintf("Meta%s: meta type %02X, want %02X", c.Kind, typ, wantTyp)
		return
	}
	if wantPayload != nil && !bytes.Equal(payload, wantPayload) {
		res.Violation = fmt.Sprintf("Meta%s: payload % X, want % X", c.Kind, clip(payload), clip(wantPayload))
		return
	}
	// 2. exactly the matching accessor accepts
	var acc []string
	if p := ev.Try(func() { acc = accepting(m) }); p != "" {
		res.Violation = "accessors: " + p
		return
	}
	if len(acc) != 1 || acc[0] != wantAccessor {
		res.Violation = fmt.Sprintf("Meta%s (% X): accepted by accessors %v, want exactly [%s]", c.Kind, clip(m), acc, wantAccessor)
		return
	}
	// 3. the accessor returns the arguments (directly after a damaged event was decoded: the
	// accessor calls of step 2 would otherwise have cleaned up whatever that left behind)
	damaged()
	if p := ev.Try(func() { res.Violation = c.inverse(m) }); p != "" {
		res.Violation = "accessor: " + p
	}
	return
}

func (c Case) bpm() float64 {
	if c.USPQ != 0 {
		return 6e7 / float64(c.USPQ)
	}
	return c.BPM
}

func clip(b []byte) []byte {
	if len(b) > 40 {
		return b[:40]
	}
	return b
}

func (c Case) inverse(m smf.Message) string {
	switch c.Kind {
	case "SequencerData":
		var bt []byte
		m.GetMetaSeqData(&bt)
		// the caller keeps what it got while it decodes further events (data of the same length with
		// other contents, a short one, a text): that must not change the earlier result
		var other []byte
		var txt string
		decoy := make([]byte, len(c.Payload))
		for i := range decoy {
			decoy[i] = ^c.Payload[i] & 0x7F
		}
		smf.MetaSequencerData(decoy).GetMetaSeqData(&other)
		smf.MetaSequencerData([]byte{0x5A, 0x25, 0x5A}).GetMetaSeqData(&other)
		smf.MetaMarker("zzzzzzzzzzzzzzzzzzzzzzzzzzzzzzzzzzzzzzzzzzzzzzzz").GetMetaMarker(&txt)
		if !bytes.Equal(bt, c.Payload) {
			return fmt.Sprintf("GetMetaSeqData returns %d bytes (% X...), MetaSequencerData was given %d bytes (% X...)", len(bt), clip(bt), len(c.Payload), clip(c.Payload))
		}
	case "Channel":
		var x uint8
		m.GetMetaChannel(&x)
		if int(x) != c.A {
			return fmt.Sprintf("GetMetaChannel = %d, want %d", x, c.A)
		}
	case "Port":
		var x uint8
		m.GetMetaPort(&x)
		if int(x) != c.A {
			return fmt.Sprintf("GetMetaPort = %d, want %d", x, c.A)
		}
	case "SequenceNo":
		var x uint16
		m.GetMetaSeqNumber(&x)
		if int(x) != c.A {
			return fmt.Sprintf("GetMetaSeqNumber = %d, want %d", x, c.A)
		}
	case "SMPTE":
		var a, b, cc, d, e uint8
		m.GetMetaSMPTEOffsetMsg(&a, &b, &cc, &d, &e)
		if [5]int{int(a), int(b), int(cc), int(d), int(e)} != [5]int{c.A, c.B, c.C, c.D, c.E} {
			return fmt.Sprintf("GetMetaSMPTEOffsetMsg = %v, want %v", []uint8{a, b, cc, d, e}, []int{c.A, c.B, c.C, c.D, c.E})
		}
		// only the arguments that are not nil are filled: every subset must give the same values
		want := [5]int{c.A, c.B, c.C, c.D, c.E}
		for mask := 0; mask < 32; mask++ {
			vals := [5]uint8{0xEE, 0xEE, 0xEE, 0xEE, 0xEE}
			var ps [5]*uint8
			for i := range ps {
				if mask&(1<<i) != 0 {
					ps[i] = &vals[i]
				}
			}
			if !m.GetMetaSMPTEOffsetMsg(ps[0], ps[1], ps[2], ps[3], ps[4]) {
				return fmt.Sprintf("GetMetaSMPTEOffsetMsg rejects its message when called with nil pattern %05b", mask)
			}
			for i := range ps {
				if ps[i] != nil && int(vals[i]) != want[i] {
					return fmt.Sprintf("GetMetaSMPTEOffsetMsg called with nil pattern %05b fills argument %d with %d, want %d", mask, i, vals[i], want[i])
				}
			}
		}
	case "TimeSig", "Meter":
		var n, d, cl, ds uint8
		m.GetMetaTimeSig(&n, &d, &cl, &ds)
		wc, wd := c.C, c.D
		if c.Kind == "Meter" {
			wc, wd = 8, 8
		}
		if wc == 0 {
			wc = 8 // documented shorthand
		}
		if wd == 0 {
			wd = 8
		}
		wden := c.B
		if c.Kind == "Meter" && wden == 0 {
			wden = 1
		}
		if int(n) != c.A || int(d) != wden || int(cl) != wc || int(ds) != wd {
			return fmt.Sprintf("Meta%s(%d,%d,%d,%d): GetMetaTimeSig = %d/%d clocks %d 32nds %d", c.Kind, c.A, c.B, c.C, c.D, n, d, cl, ds)
		}
		var mn, md uint8
		if !m.GetMetaMeter(&mn, &md) || int(mn) != c.A || int(md) != wden {
			return fmt.Sprintf("GetMetaMeter = %d/%d, want %d/%d", mn, md, c.A, wden)
		}
		wantTS := [4]int{c.A, wden, wc, wd}
		for mask := 0; mask < 16; mask++ {
			vals := [4]uint8{0xEE, 0xEE, 0xEE, 0xEE}
			var ps [4]*uint8
			for i := range ps {
				if mask&(1<<i) != 0 {
					ps[i] = &vals[i]
				}
			}
			if !m.GetMetaTimeSig(ps[0], ps[1], ps[2], ps[3]) {
				return fmt.Sprintf("GetMetaTimeSig rejects its message when called with nil pattern %04b", mask)
			}
			for i := range ps {
				if ps[i] != nil && int(vals[i]) != wantTS[i] {
					return fmt.Sprintf("GetMetaTimeSig called with nil pattern %04b fills argument %d with %d, want %d", mask, i, vals[i], wantTS[i])
				}
			}
			if mask < 4 {
				if !m.GetMetaMeter(ps[0], ps[1]) || (ps[0] != nil && int(vals[0]) != c.A) || (ps[1] != nil && int(vals[1]) != wden) {
					return fmt.Sprintf("GetMetaMeter called with nil pattern %02b gives %d/%d, want %d/%d", mask, vals[0], vals[1], c.A, wden)
				}
			}
		}
	case "Key":
		// out-parameters that still hold the opposite of the expected answer (as when one variable is
		// reused for several messages)
		var k, n uint8 = 0xEE, 0xEE
		maj, flat := !c.Flag1, !c.Flag2
		m.GetMetaKeySig(&k, &n, &maj, &flat)
		kk := smf.Key{Key: 0xEE, Num: 0xEE, IsMajor: !c.Flag1, IsFlat: !c.Flag2}
		if !m.GetMetaKey(&kk) || kk.Key != k || kk.Num != n || kk.IsMajor != maj || (c.A > 0 && kk.IsFlat != flat) {
			return fmt.Sprintf("MetaKey(num=%d, major=%v, flat=%v): GetMetaKey into a used variable gives %+v, GetMetaKeySig gives tonic %d num %d major %v flat %v", c.A, c.Flag1, c.Flag2, kk, k, n, maj, flat)
		}
		for mask := 0; mask < 16; mask++ {
			var pk, pn *uint8
			var pm, pf *bool
			k2, n2, m2, f2 := uint8(0xEE), uint8(0xEE), !maj, !flat
			if mask&1 != 0 {
				pk = &k2
			}
			if mask&2 != 0 {
				pn = &n2
			}
			if mask&4 != 0 {
				pm = &m2
			}
			if mask&8 != 0 {
				pf = &f2
			}
			if !m.GetMetaKeySig(pk, pn, pm, pf) {
				return fmt.Sprintf("GetMetaKeySig rejects its message when called with nil pattern %04b", mask)
			}
			if (pk != nil && k2 != k) || (pn != nil && n2 != n) || (pm != nil && m2 != maj) || (pf != nil && c.A > 0 && f2 != flat) {
				return fmt.Sprintf("GetMetaKeySig called with nil pattern %04b gives tonic %d num %d major %v flat %v, with all arguments %d %d %v %v", mask, k2, n2, m2, f2, k, n, maj, flat)
			}
		}
		wt := tonic(c.A, c.Flag2, c.Flag1)
		if int(k) != wt || int(n) != c.A || maj != c.Flag1 || (c.A > 0 && flat != c.Flag2) {
			return fmt.Sprintf("MetaKey(num=%d, major=%v, flat=%v): GetMetaKeySig = tonic %d num %d major %v flat %v, circle of fifths gives tonic %d", c.A, c.Flag1, c.Flag2, k, n, maj, flat, wt)
		}
	case "Tempo":
		var back float64
		m.GetMetaTempo(&back)
		if math.Abs(6e7/back-6e7/c.bpm()) > 1+1e-6 { // the field's resolution is one microsecond: rounding to nearest and truncation both qualify
			return fmt.Sprintf("MetaTempo(%v): GetMetaTempo = %v; in microseconds per quarter %.3f vs %.3f (more than the field's resolution apart)", c.bpm(), back, 6e7/back, 6e7/c.bpm())
		}
	default:
		if _, ok := namedKeys[c.Kind]; ok {
			sig := keySignatures[c.Kind]
			// decode into a variable that holds the opposite key (a reused variable)
			k := smf.Key{Key: 0xEE, Num: 0xEE, IsMajor: c.Kind[len(c.Kind)-3:] != "Maj", IsFlat: sig >= 0}
			m.GetMetaKey(&k)
			num, flat := sig, false
			if sig < 0 {
				num, flat = -sig, true
			}
			major := c.Kind[len(c.Kind)-3:] == "Maj"
			if k.String() != c.Kind || int(k.Key) != pcOfName(c.Kind) || int(k.Num) != num || k.IsMajor != major || (num > 0 && k.IsFlat != flat) {
				return fmt.Sprintf("smf.%s(): GetMetaKey = %+v (%q), want tonic %d, %d accidentals, major %v, flat %v", c.Kind, k, k.String(), pcOfName(c.Kind), num, major, flat)
			}
			return ""
		}
		var s string
		textKinds[c.Kind].get(m, &s)
		if s != string(c.Payload) {
			return fmt.Sprintf("GetMeta%s returns %d bytes, Meta%s was given %d bytes (first difference matters: % X vs % X)", c.Kind, len(s), c.Kind, len(c.Payload), clip([]byte(s)), clip(c.Payload))
		}
	}
	return ""
}

func genCase(t *rapid.T) Case {
	var c Case
	switch k := rapid.IntRange(0, 19).Draw(t, "kind"); {
	case k <= 6:
		c.Kind = rapid.SampledFrom(textNames).Draw(t, "textKind")
		c.Payload = gen.Payload(t, gen.PayloadLen(20000).Draw(t, "len"), "text")
	case k <= 9:
		c.Kind = "SequencerData"
		n := gen.PayloadLen(20000).Draw(t, "len")
		if n == 0 {
			n = 1
		}
		c.Payload = gen.Payload(t, n, "data")
	case k == 10:
		c.Kind = "SMPTE"
		c.A, c.B, c.C, c.D, c.E = d8(t), d8(t), d8(t), d8(t), d8(t)
	case k <= 13:
		c.Kind = "TimeSig"
		c.A = d8(t)
		c.B = rapid.SampledFrom([]int{1, 2, 4, 8, 16, 32, 64, 128}).Draw(t, "den")
		c.C = rapid.OneOf(rapid.IntRange(1, 255), rapid.Just(0), rapid.Just(24)).Draw(t, "clocks")
		c.D = rapid.OneOf(rapid.IntRange(1, 255), rapid.Just(0), rapid.Just(8)).Draw(t, "32nds")
	case k == 14:
		c.Kind = "Meter"
		c.A = d8(t)
		c.B = rapid.SampledFrom([]int{1, 2, 4, 8, 16, 32, 64, 128}).Draw(t, "den")
	default:
		c.Kind = "Tempo"
		if rapid.Bool().Draw(t, "asField") {
			c.USPQ = rapid.OneOf(rapid.Uint32Range(1, 1<<24-1), rapid.SampledFrom([]uint32{1, 2, 3, 255, 256, 65535, 65536, 500000, 1<<24 - 2, 1<<24 - 1})).Draw(t, "uspq")
		} else {
			c.BPM = rapid.OneOf(rapid.Float64Range(3.58, 1000), rapid.Float64Range(3.58, 6e7), rapid.SampledFrom([]float64{3.58, 120, 6e7, 59.999, 60.001})).Draw(t, "bpm")
		}
	}
	return c
}

func d8(t *rapid.T) int { return int(rapid.Byte().Draw(t, "byte")) }

var metas = ev.NewCheck("C15", "constructors",
	"rapid: the 9 text constructors with arbitrary bytes of length 0..20000 (biased to 127/128/129/16383/16384), MetaSequencerData 1..20000 bytes, SMPTE offset fields, time signatures numerator 0..255 x denominator 1..128 (powers of two) x clocks x 32nds (0 = documented shorthand for 8), MetaMeter, tempi as every 24-bit microseconds-per-quarter value (sampled) and random BPM 3.58..6e7; a damaged text/data event is decoded before every case (nothing of it may leak into the next result); sequencer data handed out by the accessor is compared only after further events (same length other contents, short data, a text) were decoded; payloads start or end with magic sequences (byte order marks, line ends, NUL, FF 2F 00, F7) in one case of six; the multi-value accessors (SMPTE offset, time signature, meter, key signature) are also called with every subset of nil out-parameters; oracle: message is FF/type/canonical VLQ/payload with exact length by the harness parser, exactly the matching accessor accepts, accessor returns the arguments (tempo at most 1 us per quarter away, the resolution of the field); non-trivial = payload >= 128 bytes or a non-text constructor; distinct by case hash",
	genCase, run)

func TestPropConstructors(t *testing.T) { metas.Rapid(t, 4000, 100000) }

var enum = ev.NewCheck("C15", "enumerations",
	"exhaustive: MetaChannel and MetaPort 0..255, MetaSequenceNo 0..65535, MetaKey for all (accidentals 0..7, flat/sharp, major/minor) x ignored key argument {0,5,11}, all 26 named key constructors (expected tonic/accidentals derived from the key's name by the circle of fifths; String() must be the name), time signatures all numerators x 8 denominators; thorough: MetaTempo for all 2^24-1 field values, sharded (quick: stride 257); oracle as above; all cases non-trivial, distinct by construction",
	nil, run)

func TestEnumSmallDomains(t *testing.T) {
	enum.R.Exhaustive = ev.Thorough()
	var n int64
	failed := false
	one := func(c Case) {
		if failed {
			return
		}
		n++
		if r := run(c); r.Violation != "" {
			failed = true
			enum.R.AddEnum(n, n, "")
			enum.R.Fail(t, c, "%s", r.Violation)
		}
	}
	if ev.Shard() == 0 {
		for v := 0; v < 256; v++ {
			one(Case{Kind: "Channel", A: v})
			one(Case{Kind: "Port", A: v})
			for _, d := range []int{1, 2, 4, 8, 16, 32, 64, 128} {
				one(Case{Kind: "TimeSig", A: v, B: d, C: 24, D: 8})
			}
		}
		for v := 0; v < 65536; v++ {
			one(Case{Kind: "SequenceNo", A: v})
		}
		for num := 0; num <= 7; num++ {
			for _, flat := range []bool{false, true} {
				for _, major := range []bool{false, true} {
					for _, key := range []int{0, 5, 11} {
						one(Case{Kind: "Key", A: num, Flag1: major, Flag2: flat, E: key})
					}
				}
			}
		}
		for name := range keySignatures {
			one(Case{Kind: name})
		}
		enum.R.Sample(Case{Kind: "EbMin"})
		enum.R.Sample(Case{Kind: "Key", A: 5, Flag1: false, Flag2: true})
	}
	lo, hi := ev.ShardRange(1<<24 - 1)
	step := int64(ev.N(257, 1))
	for u := lo + 1; u <= hi && !failed; u += step {
		one(Case{Kind: "Tempo", USPQ: uint32(u)})
	}
	enum.R.AddEnum(n, n, "")
}

func TestReplay(t *testing.T) { ev.ReplayAll(t) }

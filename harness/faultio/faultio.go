// Package faultio provides fault-injecting and fragmenting io.Reader / io.Writer fakes.
package faultio

import (
	"errors"
	"io"
)

var ErrInjected = errors.New("faultio: injected I/O failure")

// Writer accepts Budget bytes in total and then fails. Short == true: the failing call
// accepts what still fits and returns (k, err); Short == false: the failing call accepts
// nothing and returns (0, err). After the first failure every call fails.
type Writer struct {
	Budget int
	Short  bool
	Full   bool // the failing call takes over all of its data and reports (len(p), err): a deferred failure
	// Transient: only one call fails (short write with error); later calls are accepted again
	Transient bool
	Failures  int
	Accepted  []byte
	Failed    bool
}

func (w *Writer) Write(p []byte) (int, error) {
	if w.Failed && !w.Transient {
		return 0, ErrInjected
	}
	room := w.Budget - len(w.Accepted)
	if len(p) <= room || (w.Transient && w.Failed) {
		w.Accepted = append(w.Accepted, p...)
		return len(p), nil
	}
	w.Failed = true
	w.Failures++
	if w.Full {
		w.Accepted = append(w.Accepted, p...)
		return len(p), ErrInjected
	}
	if w.Short {
		w.Accepted = append(w.Accepted, p[:room]...)
		return room, ErrInjected
	}
	return 0, ErrInjected
}

// FailingReader delivers Data[:FailAt] and then returns a sticky non-EOF error.
// Together == false: the bytes before the fault are returned with a nil error and the error
// comes alone on the next call; Together == true: the call that reaches the fault offset
// returns its bytes together with the error.
type FailingReader struct {
	Data     []byte
	FailAt   int
	Together bool
	pos      int
	Calls    int
}

func (r *FailingReader) Read(p []byte) (int, error) {
	r.Calls++
	if len(p) == 0 {
		return 0, nil
	}
	if r.pos >= r.FailAt {
		return 0, ErrInjected
	}
	n := copy(p, r.Data[r.pos:r.FailAt])
	r.pos += n
	if r.pos >= r.FailAt && r.Together {
		return n, ErrInjected
	}
	return n, nil
}

// FragReader delivers Data in the pieces given by Cuts (sorted offsets where a Read result
// must end). EOFWithData: the final piece is returned together with io.EOF.
// A Read never returns 0 bytes without an error.
type FragReader struct {
	Data        []byte
	Cuts        []int
	EOFWithData bool
	pos         int
	ci          int
}

func (r *FragReader) Read(p []byte) (int, error) {
	if len(p) == 0 {
		return 0, nil
	}
	if r.pos >= len(r.Data) {
		return 0, io.EOF
	}
	for r.ci < len(r.Cuts) && r.Cuts[r.ci] <= r.pos {
		r.ci++
	}
	end := len(r.Data)
	if r.ci < len(r.Cuts) && r.Cuts[r.ci] < end {
		end = r.Cuts[r.ci]
	}
	n := copy(p, r.Data[r.pos:end])
	r.pos += n
	if r.pos >= len(r.Data) && r.EOFWithData {
		return n, io.EOF
	}
	return n, nil
}

// OneByteReader returns one byte per call.
type OneByteReader struct {
	Data []byte
	pos  int
}

func (r *OneByteReader) Read(p []byte) (int, error) {
	if len(p) == 0 {
		return 0, nil
	}
	if r.pos >= len(r.Data) {
		return 0, io.EOF
	}
	p[0] = r.Data[r.pos]
	r.pos++
	return 1, nil
}

// FailingSeeker is a plain reader that also has a Seek method which always fails, like the
// read end of a pipe opened as a file.
type FailingSeeker struct {
	R io.Reader
}

func (f *FailingSeeker) Read(p []byte) (int, error) { return f.R.Read(p) }
func (f *FailingSeeker) Seek(offset int64, whence int) (int64, error) {
	return 0, errors.New("faultio: seek on a pipe")
}

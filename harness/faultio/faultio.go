// Package faultio provides fault-injecting and fragmenting io.Reader / io.Writer fakes.
package faultio

import (
	"errors"
	"io"
	"os"
	"syscall"
)

var ErrInjected = errors.New("faultio: injected I/O failure")

// WellKnown: error values with a meaning of their own that real destinations and sources return
// (a library must not mistake any of them for "nothing happened" or for the end of the data;
// io.EOF itself is not among them).
var WellKnown = []error{
	ErrInjected, io.ErrShortWrite, io.ErrUnexpectedEOF, io.ErrClosedPipe, io.ErrNoProgress,
	os.ErrDeadlineExceeded, os.ErrClosed, syscall.ENOSPC, syscall.EPIPE, syscall.EIO, io.ErrShortBuffer,
}

// ErrFor picks the error value for a fault at offset k (a pure function of k).
func ErrFor(k int) error {
	if k < 0 {
		k = -k
	}
	return WellKnown[k%len(WellKnown)]
}

// Writer accepts Budget bytes in total and then fails. Short == true: the failing call
// accepts what still fits and returns (k, err); Short == false: the failing call accepts
// nothing and returns (0, err). After the first failure every call fails.
type Writer struct {
	Budget int
	Short  bool
	Full   bool // the failing call takes over all of its data and reports (len(p), err): a deferred failure
	// Transient: only one call fails (short write with error); later calls are accepted again
	Transient bool
	Failures  int
	Accepted  []byte
	Failed    bool
	Err       error // the error value returned (nil: ErrInjected)
}

func (w *Writer) err() error {
	if w.Err != nil {
		return w.Err
	}
	return ErrInjected
}

func (w *Writer) Write(p []byte) (int, error) {
	if w.Failed && !w.Transient {
		return 0, w.err()
	}
	room := w.Budget - len(w.Accepted)
	if len(p) <= room || (w.Transient && w.Failed) {
		w.Accepted = append(w.Accepted, p...)
		return len(p), nil
	}
	w.Failed = true
	w.Failures++
	if w.Full {
		w.Accepted = append(w.Accepted, p...)
		return len(p), w.err()
	}
	if w.Short {
		w.Accepted = append(w.Accepted, p[:room]...)
		return room, w.err()
	}
	return 0, w.err()
}

// FailingReader delivers Data[:FailAt] and then returns a sticky non-EOF error.
// Together == false: the bytes before the fault are returned with a nil error and the error
// comes alone on the next call; Together == true: the call that reaches the fault offset
// returns its bytes together with the error.
type FailingReader struct {
	Data     []byte
	FailAt   int
	Together bool
	pos      int
	Calls    int
	Err      error // the error value returned (nil: ErrInjected)
}

func (r *FailingReader) err() error {
	if r.Err != nil {
		return r.Err
	}
	return ErrInjected
}

func (r *FailingReader) Read(p []byte) (int, error) {
	r.Calls++
	if len(p) == 0 {
		return 0, nil
	}
	if r.pos >= r.FailAt {
		return 0, r.err()
	}
	n := copy(p, r.Data[r.pos:r.FailAt])
	r.pos += n
	if r.pos >= r.FailAt && r.Together {
		return n, r.err()
	}
	return n, nil
}

// FragReader delivers Data in the pieces given by Cuts (sorted offsets where a Read result
// must end). EOFWithData: the final piece is returned together with io.EOF.
// A Read never returns 0 bytes without an error.
type FragReader struct {
	Data        []byte
	Cuts        []int
	EOFWithData bool
	pos         int
	ci          int
}

func (r *FragReader) Read(p []byte) (int, error) {
	if len(p) == 0 {
		return 0, nil
	}
	if r.pos >= len(r.Data) {
		return 0, io.EOF
	}
	for r.ci < len(r.Cuts) && r.Cuts[r.ci] <= r.pos {
		r.ci++
	}
	end := len(r.Data)
	if r.ci < len(r.Cuts) && r.Cuts[r.ci] < end {
		end = r.Cuts[r.ci]
	}
	n := copy(p, r.Data[r.pos:end])
	r.pos += n
	if r.pos >= len(r.Data) && r.EOFWithData {
		return n, io.EOF
	}
	return n, nil
}

// OneByteReader returns one byte per call.
type OneByteReader struct {
	Data []byte
	pos  int
}

func (r *OneByteReader) Read(p []byte) (int, error) {
	if len(p) == 0 {
		return 0, nil
	}
	if r.pos >= len(r.Data) {
		return 0, io.EOF
	}
	p[0] = r.Data[r.pos]
	r.pos++
	return 1, nil
}

// FailingSeeker is a plain reader that also has a Seek method which always fails, like the
// read end of a pipe opened as a file.
type FailingSeeker struct {
	R io.Reader
}

func (f *FailingSeeker) Read(p []byte) (int, error) { return f.R.Read(p) }
func (f *FailingSeeker) Seek(offset int64, whence int) (int64, error) {
	return 0, errors.New("faultio: seek on a pipe")
}

// Package c13 decides property C13: recording a live stream yields a valid file with
// faithful timing.
package c13

import (
	"bytes"
	"fmt"
	"math"
	"math/big"
	"os"
	"path/filepath"
	"sync"
	"testing"
	"time"

	"gitlab.com/gomidi/midi/v2/drivers"
	"gitlab.com/gomidi/midi/v2/drivers/testdrv"
	"gitlab.com/gomidi/midi/v2/smf"
	"gitlab.com/gomidi/midi/v2/zverif/adapt"
	"gitlab.com/gomidi/midi/v2/zverif/ev"
	"gitlab.com/gomidi/midi/v2/zverif/live"
	"gitlab.com/gomidi/midi/v2/zverif/ref/midiref"
	"gitlab.com/gomidi/midi/v2/zverif/ref/smfref"
	"pgregory.net/rapid"
)

func TestMain(m *testing.M) { ev.Main(m) }

type Case struct {
	Chunks []live.Chunk
	BPM    float64
	Res    uint16
	Port   string // "fake" (exact clock), "testdrv" (Driver.Sleep), "smf-fake" (SMF.RecordFrom, sleeps 1 s)
	// ToFile (smf-fake only): the package-level smf.RecordTo(port, bpm, filename) is used; it
	// records at the default resolution of smf.New (960) and writes the file in its stop function
	ToFile bool `json:",omitempty"`
}

// exactTicks: deltaMs * res * bpm / 60000 as a rational.
func exactTicks(deltaMs int64, res uint16, bpm float64) *big.Rat {
	r := new(big.Rat).SetFloat64(bpm)
	r.Mul(r, big.NewRat(deltaMs*int64(res), 60000))
	return r
}

func run(c Case) (res ev.Result) {
	if c.ToFile {
		c.Res = 960
	}
	if c.Res == 0 || c.BPM <= 0 {
		res.Skip = true
		return
	}
	// expectation: the channel messages the reference receiver sees, with arrival times
	rc := &midiref.Receiver{}
	for _, ch := range c.Chunks {
		rc.Feed(ch.Data, ch.Delta)
	}
	var want []midiref.Delivered
	other := 0
	between := false
	for _, d := range rc.Out {
		if d.Msg[0] < 0xF0 {
			want = append(want, d)
		} else {
			other++
			if len(want) > 0 {
				between = true
			}
		}
	}
	var lastT int64
	for _, d := range want {
		if f, _ := exactTicks(d.TS64-lastT, c.Res, c.BPM).Float64(); f > 0x0FFFFFFF || d.TS64 >= 1<<31 {
			// outside the stated domain: a delta beyond the format's maximum, or an arrival time
			// that a 32-bit millisecond stamp cannot represent (the stamp would have wrapped around)
			res.Skip = true
			return
		}
		lastT = d.TS64
	}
	res.Nontrivial = len(want) >= 3 && between
	res.Classes = []string{"port=" + c.Port}
	if c.ToFile {
		res.Classes = append(res.Classes, "smf.RecordTo")
	}
	if other > 0 {
		res.Classes = append(res.Classes, "non-channel-messages-arrive")
	}
	if rc.Orphan > 0 {
		res.Classes = append(res.Classes, "stray-data")
	}
	mt := smf.MetricTicks(c.Res)
	var tr smf.Track
	var file *smf.SMF
	firstExempt := false
	failed := ev.TryTimeout(ev.Watchdog, func() {
		switch c.Port {
		case "testdrv":
			drv := testdrv.New("c13")
			ins, _ := drv.Ins()
			outs, _ := drv.Outs()
			stop, err := tr.RecordFrom(ins[0], mt, c.BPM)
			if err != nil {
				panic(err)
			}
			outs[0].Open()
			// the test driver mixes the wall clock into its first time stamp: keep it positive
			drv.Sleep(2 * time.Second)
			firstExempt = true
			for _, ch := range c.Chunks {
				drv.Sleep(time.Duration(ch.Delta) * time.Millisecond)
				if err := outs[0].Send(ch.Data); err != nil {
					panic(err)
				}
			}
			stop()
		case "smf-fake":
			in := &live.FakeIn{}
			if c.ToFile {
				dir, err := os.MkdirTemp("", "verif-c13-")
				if err != nil {
					panic(err)
				}
				defer os.RemoveAll(dir)
				path := filepath.Join(dir, "take.mid")
				stop, err := smf.RecordTo(in, c.BPM, path)
				if err != nil {
					panic(err)
				}
				for _, ch := range c.Chunks {
					in.Feed(ch.Data, ch.Delta)
				}
				if err := stop(); err != nil {
					panic(fmt.Sprintf("the stop function of RecordTo: %v", err))
				}
				raw, err := os.ReadFile(path)
				if err != nil {
					panic(fmt.Sprintf("RecordTo left no readable file: %v", err))
				}
				if _, err := smfref.Strict(raw); err != nil {
					panic(fmt.Sprintf("the file written by RecordTo is not a valid SMF: %v", err))
				}
				if file, err = smf.ReadFrom(bytes.NewReader(raw)); err != nil {
					panic(fmt.Sprintf("the file written by RecordTo cannot be read: %v", err))
				}
				if mtf, ok := file.TimeFormat.(smf.MetricTicks); !ok || mtf.Resolution() != 960 {
					panic(fmt.Sprintf("RecordTo wrote time format %v, smf.New has 960 ticks", file.TimeFormat))
				}
				if len(file.Tracks) != 1 {
					panic(fmt.Sprintf("RecordTo: file has %d tracks", len(file.Tracks)))
				}
				tr = file.Tracks[0]
				return
			}
			file = smf.New()
			file.TimeFormat = mt
			stop, err := file.RecordFrom(in, c.BPM)
			if err != nil {
				panic(err)
			}
			for _, ch := range c.Chunks {
				in.Feed(ch.Data, ch.Delta)
			}
			stop() // sleeps one second, closes and adds the track
			if len(file.Tracks) != 1 {
				panic(fmt.Sprintf("SMF.RecordFrom: file has %d tracks after stop", len(file.Tracks)))
			}
			tr = file.Tracks[0]
		default:
			in := &live.FakeIn{}
			stop, err := tr.RecordFrom(in, mt, c.BPM)
			if err != nil {
				panic(err)
			}
			for _, ch := range c.Chunks {
				in.Feed(ch.Data, ch.Delta)
			}
			stop()
		}
	})
	if failed != "" {
		res.Violation = "recording: " + failed
		return
	}
	// 1. initial tempo event
	if len(tr) == 0 || len(tr[0].Message) != 6 || !bytes.Equal(tr[0].Message[:3], []byte{0xFF, 0x51, 0x03}) || tr[0].Delta != 0 {
		res.Violation = fmt.Sprintf("recorded track does not start with a tempo event at delta 0: %v", head(tr))
		return
	}
	var bpmBack float64
	if !tr[0].Message.GetMetaTempo(&bpmBack) || math.Abs(6e7/bpmBack-6e7/c.BPM) > 1+1e-6 {
		res.Violation = fmt.Sprintf("initial tempo event encodes %v BPM, recording tempo is %v", bpmBack, c.BPM)
		return
	}
	// 2. the channel messages, unchanged, in order, with faithful timing; anything else legal
	var abs, lastAbs int64
	var lastTS int64
	k, inter := 0, 0
	for i, e := range tr[1:] {
		abs += int64(e.Delta)
		m := e.Message
		switch {
		case len(m) == 0:
			res.Violation = fmt.Sprintf("recorded event %d has an empty message", i+1)
			return
		case m[0] < 0x80 || m[0] >= 0xF0:
			// not a channel message: whether it may be stored is decided below by the strict
			// parser and the read-back of the written file
			if bytes.Equal(m, smf.EOT) && c.Port == "smf-fake" {
				continue
			}
			inter++
			continue
		}
		if k >= len(want) {
			res.Violation = fmt.Sprintf("recorded channel message %d (% X) never arrived", k, []byte(m))
			return
		}
		if !bytes.Equal(m, want[k].Msg) {
			res.Violation = fmt.Sprintf("recorded channel message %d is % X, message %d that arrived is % X", k, []byte(m), k, []byte(want[k].Msg))
			return
		}
		if !(k == 0 && firstExempt) {
			exact := exactTicks(want[k].TS64-lastTS, c.Res, c.BPM)
			diff := new(big.Rat).Sub(new(big.Rat).SetInt64(abs-lastAbs), exact)
			diff.Abs(diff)
			tol := big.NewRat(int64(2+inter), 2) // one tick, plus half a tick per intermediate event
			if diff.Cmp(tol) > 0 {
				f, _ := exact.Float64()
				res.Violation = fmt.Sprintf("channel message %d (% X): recorded %d ticks after the previous one, arrival time difference %d ms at %v BPM / %d ppq is %.3f ticks", k, []byte(m), abs-lastAbs, want[k].TS64-lastTS, c.BPM, c.Res, f)
				return
			}
		}
		lastAbs, lastTS, inter = abs, want[k].TS64, 0
		k++
	}
	if k != len(want) {
		res.Violation = fmt.Sprintf("%d channel messages arrived, %d were recorded (first missing: % X)", len(want), k, []byte(want[k].Msg))
		return
	}
	// 3. closed + written: strictly valid file that reads back to the same events
	if file == nil {
		tr.Close(0)
		file = smf.New()
		file.TimeFormat = mt
		file.Add(tr)
	}
	var buf bytes.Buffer
	var back *smf.SMF
	var werr, rerr error
	if p := ev.TryTimeout(ev.Watchdog, func() {
		if _, werr = file.WriteTo(&buf); werr == nil {
			back, rerr = smf.ReadFrom(bytes.NewReader(buf.Bytes()))
		}
	}); p != "" {
		res.Violation = "writing / reading the recorded file: " + p
		return
	}
	if werr != nil {
		res.Violation = fmt.Sprintf("WriteTo of the recorded file failed: %v", werr)
		return
	}
	if _, err := smfref.Strict(buf.Bytes()); err != nil {
		res.Violation = fmt.Sprintf("the recorded file is not a valid SMF: %v", err)
		return
	}
	if rerr != nil {
		res.Violation = fmt.Sprintf("the library cannot read the recorded file back: %v", rerr)
		return
	}
	if d := adapt.DiffTracks(adapt.Tracks(back), adapt.Tracks(file)); d != "" {
		res.Violation = "recorded file reads back differently: " + d
	}
	return
}

func head(tr smf.Track) string {
	s := ""
	for i, e := range tr {
		if i >= 3 {
			break
		}
		s += fmt.Sprintf("[%d % X] ", e.Delta, []byte(e.Message))
	}
	return s
}

func genCase(port string) func(t *rapid.T) Case {
	return func(t *rapid.T) Case {
		c := Case{Port: port}
		if port == "smf-fake" {
			c.ToFile = rapid.IntRange(0, 2).Draw(t, "recordTo?") == 0
		}
		c.BPM = rapid.OneOf(rapid.Float64Range(20, 400), rapid.SampledFrom([]float64{20, 60, 119.99, 120, 123.456, 400})).Draw(t, "bpm")
		c.Res = rapid.OneOf(rapid.SampledFrom([]uint16{24, 96, 480, 960, 15360}), rapid.Uint16Range(24, 15360)).Draw(t, "res")
		items := live.Items(t, 1024, 30)
		stream := midiref.Serialise(items)
		// sprinkle stray data bytes, active sensing and unpaired bytes between messages
		var out []byte
		pos := 0
		for _, it := range items {
			n := len(midiref.Serialise([]midiref.Item{it}))
			_ = n
			break
		}
		out = append(out, stream[pos:]...)
		if rapid.Bool().Draw(t, "junk?") {
			k := rapid.IntRange(1, 4).Draw(t, "nJunk")
			for i := 0; i < k; i++ {
				j := rapid.SampledFrom([][]byte{{0xFE}, {0xF7}, {0xF4}, {0xF6}, {0xF1, 0x05}, {0xF3, 0x01}, {0xF2, 0x01, 0x02}, {0xF7, 0x33}, {0xF5, 0x11, 0x22}, {0xF0, 0x01, 0x02}, {0xF0}, {0xF0, 0x7E, 0x7F, 0x09}, {0xF8}, {0xFA}, {0xFF}, {0xFC}, {0xFD}, {0xF9}, {0xFD, 0x40}}).Draw(t, "junk")
				out = append(append([]byte{}, j...), out...)
				if rapid.Bool().Draw(t, "junkAtEnd") {
					out = append(out[len(j):], j...)
				}
			}
		}
		if rapid.IntRange(0, 3).Draw(t, "undefinedRealtimeInside?") == 0 && len(out) > 0 {
			k := rapid.IntRange(1, 3).Draw(t, "nUndefined")
			for i := 0; i < k; i++ {
				pos := rapid.IntRange(0, len(out)).Draw(t, "undefPos")
				b := rapid.SampledFrom([]byte{0xFD, 0xF9}).Draw(t, "undefByte")
				out = append(out[:pos:pos], append([]byte{b}, out[pos:]...)...)
			}
		}
		if port == "testdrv" {
			// that driver's clock starts at the wall clock: its time stamps wrap around earlier
			c.Chunks = live.Chunking(t, out, 60000)
		} else {
			c.Chunks = live.ChunkingToLastStamp(t, out, 60000)
		}
		// stated domain: every tick delta fits the format's maximum 0x0FFFFFFF. Bound the whole
		// stream's duration accordingly (constructive: scale the inter-arrival times down).
		budget := float64(0x0FFFFFFF) * 60000 / (float64(c.Res) * c.BPM) * 0.99
		var total float64
		for _, ch := range c.Chunks {
			total += float64(ch.Delta)
		}
		if total > budget {
			f := budget / total
			for i := range c.Chunks {
				c.Chunks[i].Delta = int32(float64(c.Chunks[i].Delta) * f)
			}
		}
		return c
	}
}

const rule = "rapid: live streams of the C04 domain (1..30 messages, one stream in 60 has 300..1500; channel, system common, sysex, real-time incl. active sensing, running status, interleaved real-time) plus unpaired/undefined bytes (F4 F5 F7 F9 FD) and sysex starts that are never terminated (ended by the next status byte) between and inside messages, chunked with inter-arrival times 0..60000 ms and up to 4 pauses of up to 2^28 ms (the whole recording stays below 2^31 ms, the range of the 32-bit time stamps); tempo 20..400 BPM (fractional), resolution 24..15360; oracle: track = tempo event (within the 24-bit field's resolution) + exactly the channel messages the reference receiver sees, unchanged and in order, each delta within one tick of the exact rational conversion of the arrival time difference; every other stored event must be a legal SMF event; after Close+WriteTo the strict SMF parser accepts the bytes and ReadFrom returns the same events; non-trivial = >= 3 channel messages with a real-time / system-common message between two of them; distinct by case hash"

var fake = ev.NewCheck("C13", "track-record-fake-port", rule+"; port = deterministic drivers.In of the harness (exact clock)", genCase("fake"), run)
var tdrv = ev.NewCheck("C13", "track-record-testdrv", rule+"; port = testdrv with Driver.Sleep as clock (first recorded delta exempt: that driver's first time stamp contains the wall clock)", genCase("testdrv"), run)
var smfrec = ev.NewCheck("C13", "smf-record", rule+"; SMF.RecordFrom on the fake port, in one case of three the package-level smf.RecordTo into a temporary file (default resolution 960; the file it writes is read back and judged) (the stop functions sleep one second; cases run in parallel)", genCase("smf-fake"), run)

func TestPropTrackRecordFake(t *testing.T)    { fake.Rapid(t, 1500, 40000) }
func TestPropTrackRecordTestdrv(t *testing.T) { tdrv.Rapid(t, 800, 20000) }

// SMF.RecordFrom sleeps a second in stop: few cases, all in parallel, drawn by rapid.
func TestPropSMFRecord(t *testing.T) {
	n := ev.N(2, 40) // per shard
	ev.SetupRapid("C13/smf-record", n)
	var cases []Case
	rapid.Check(t, func(rt *rapid.T) { cases = append(cases, genCase("smf-fake")(rt)) })
	var wg sync.WaitGroup
	results := make([]ev.Result, len(cases))
	for i := range cases {
		wg.Add(1)
		go func(i int) {
			defer wg.Done()
			results[i] = run(cases[i])
		}(i)
	}
	wg.Wait()
	for i, r := range results {
		smfrec.R.Eval(nil, r.Nontrivial, cases[i], r.Classes...)
		if r.Violation != "" {
			smfrec.R.Fail(t, cases[i], "%s", r.Violation)
		}
	}
}

// ---- two takes into one file with a write in between ------------------------------------------

type TakesCase struct {
	Take1, Take2 []live.Chunk
	BPM          float64
	Res          uint16
	// Ctor1: the file comes from NewSMF1 (its format does not change when the second track arrives)
	Ctor1 bool `json:",omitempty"`
	// Port: "" = a fresh exact-clock port per take, "same" = one exact-clock port for both takes,
	// "testdrv" = one testdrv port for both takes (pauses capped at one second: its clock starts
	// at the wall clock)
	Port string `json:",omitempty"`
}

func channelOnly(chunks []live.Chunk) [][]byte {
	rc := &midiref.Receiver{}
	for _, ch := range chunks {
		rc.Feed(ch.Data, ch.Delta)
	}
	var out [][]byte
	for _, d := range rc.Out {
		if d.Msg[0] < 0xF0 {
			out = append(out, d.Msg)
		}
	}
	return out
}

func runTakes(c TakesCase) (res ev.Result) {
	want := [][][]byte{channelOnly(c.Take1), channelOnly(c.Take2)}
	res.Nontrivial = len(want[0]) > 0 && len(want[1]) > 0
	file := smf.New()
	if c.Ctor1 {
		file = smf.NewSMF1()
	}
	file.TimeFormat = smf.MetricTicks(c.Res)
	var first, second bytes.Buffer
	failed := ev.TryTimeout(ev.Watchdog, func() {
		var fake *live.FakeIn
		var drv *testdrv.Driver
		var tin drivers.In
		var tout drivers.Out
		if c.Port == "testdrv" {
			drv = testdrv.New("c13-takes")
			ins, _ := drv.Ins()
			outs, _ := drv.Outs()
			tin, tout = ins[0], outs[0]
			tout.Open()
			drv.Sleep(2 * time.Second)
		}
		for i, take := range [][]live.Chunk{c.Take1, c.Take2} {
			if fake == nil || c.Port == "" {
				fake = &live.FakeIn{}
			}
			var in drivers.In = fake
			if drv != nil {
				in = tin
			}
			stop, err := file.RecordFrom(in, c.BPM)
			if err != nil {
				panic(err)
			}
			for _, ch := range take {
				if drv != nil {
					drv.Sleep(time.Duration(min(ch.Delta, 1000)) * time.Millisecond)
					if err := tout.Send(ch.Data); err != nil {
						panic(err)
					}
				} else {
					fake.Feed(ch.Data, ch.Delta)
				}
			}
			stop()
			w := &first
			if i == 1 {
				w = &second
			}
			if _, err := file.WriteTo(w); err != nil {
				panic(fmt.Sprintf("WriteTo after take %d: %v", i+1, err))
			}
		}
	})
	if failed != "" {
		res.Violation = "recording two takes: " + failed
		return
	}
	for i, b := range [][]byte{first.Bytes(), second.Bytes()} {
		st, err := smfref.Strict(b)
		if err != nil {
			res.Violation = fmt.Sprintf("the file written after take %d is not a valid SMF: %v", i+1, err)
			return
		}
		tracks := st.File.Tracks()
		if len(tracks) != i+1 {
			res.Violation = fmt.Sprintf("the file written after take %d has %d tracks, %d takes were recorded", i+1, len(tracks), i+1)
			return
		}
		back, rerr := smf.ReadFrom(bytes.NewReader(b))
		if rerr != nil {
			res.Violation = fmt.Sprintf("the library cannot read the file written after take %d: %v", i+1, rerr)
			return
		}
		if d := adapt.DiffTracks(adapt.Tracks(back), tracks); d != "" {
			res.Violation = fmt.Sprintf("file written after take %d reads back differently: %s", i+1, d)
			return
		}
		for ti, tr := range tracks {
			var got [][]byte
			for _, e := range tr {
				if e.Msg[0] < 0xF0 {
					got = append(got, e.Msg)
				}
			}
			if len(got) != len(want[ti]) {
				res.Violation = fmt.Sprintf("file after take %d, track %d: %d channel messages, %d arrived during that take", i+1, ti, len(got), len(want[ti]))
				return
			}
			for k := range got {
				if !bytes.Equal(got[k], want[ti][k]) {
					res.Violation = fmt.Sprintf("file after take %d, track %d, message %d: % X, arrived % X", i+1, ti, k, got[k], want[ti][k])
					return
				}
			}
		}
	}
	return
}

var takes = ev.NewCheck("C13", "smf-record-two-takes",
	"rapid: two live streams recorded one after the other into the same file (from New or NewSMF1) with SMF.RecordFrom, from a fresh port per take, from the same port, or from the same testdrv port, the file is written after each take (record - write - record - write); oracle: each written file passes the strict SMF parser, has one track per take so far, reads back equal, and every track holds exactly the channel messages of its take in order; non-trivial = both takes contain channel messages; cases run in parallel (each stop sleeps one second)",
	func(t *rapid.T) TakesCase {
		a, b := genCase("smf-fake")(t), genCase("smf-fake")(t)
		// the second take was bounded for its own tempo and resolution: bound it for the ones used
		// here (stated domain: every tick delta fits the format's maximum)
		budget := float64(0x0FFFFFFF) * 60000 / (float64(a.Res) * a.BPM) * 0.99
		var total float64
		for _, ch := range b.Chunks {
			total += float64(ch.Delta)
		}
		if total > budget {
			f := budget / total
			for i := range b.Chunks {
				b.Chunks[i].Delta = int32(float64(b.Chunks[i].Delta) * f)
			}
		}
		return TakesCase{Take1: a.Chunks, Take2: b.Chunks, BPM: a.BPM, Res: a.Res,
			Ctor1: rapid.Bool().Draw(t, "newSMF1?"), Port: rapid.SampledFrom([]string{"", "same", "testdrv"}).Draw(t, "port")}
	}, runTakes)

func TestPropSMFRecordTwoTakes(t *testing.T) {
	n := ev.N(2, 20) // per shard
	ev.SetupRapid("C13/smf-record-two-takes", n)
	var cases []TakesCase
	rapid.Check(t, func(rt *rapid.T) { cases = append(cases, takes.Gen(rt)) })
	var wg sync.WaitGroup
	results := make([]ev.Result, len(cases))
	for i := range cases {
		wg.Add(1)
		go func(i int) {
			defer wg.Done()
			results[i] = runTakes(cases[i])
		}(i)
	}
	wg.Wait()
	for i, r := range results {
		takes.R.Eval(nil, r.Nontrivial, cases[i], r.Classes...)
		if r.Violation != "" {
			takes.R.Fail(t, cases[i], "%s", r.Violation)
		}
	}
}

func TestReplay(t *testing.T) { ev.ReplayAll(t) }

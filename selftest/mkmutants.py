#!/usr/bin/env python3
"""Generates the deliberate breakages of DESIGN.md section 9 as patches (selftest/mutants/*.patch).
Each entry: (name, properties expected to catch it, file under v2/, old text, new text)."""
import os, subprocess, sys, shutil, tempfile
M = [
 ("c01-add-after-close", "C01,C03", "smf/track.go",
  "func (t *Track) Add(deltaticks uint32, msgs ...[]byte) {\n\tif t.IsClosed() {\n\t\treturn\n\t}\n",
  "func (t *Track) Add(deltaticks uint32, msgs ...[]byte) {\n"),
 ("c01-multiadd-delta-every-message", "C01", "smf/track.go",
  "\t\t*t = append(*t, ev)\n\t\tdeltaticks = 0\n", "\t\t*t = append(*t, ev)\n"),
 ("c01-running-status-not-reset-by-meta", "C01,C03", "internal/runningstatus/runningstatus.go",
  "\tif !midi.Message(raw).Is(midi.ChannelMsg) {\n\t\t// if midi.GetMsgType(raw).Category() != midi.ChannelMessages {\n\t\t//fmt.Printf(\"is no channel message, resetting status\\n\")\n\t\tw.status = 0\n\t\treturn raw\n\t}",
  "\tif !midi.Message(raw).Is(midi.ChannelMsg) {\n\t\t// if midi.GetMsgType(raw).Category() != midi.ChannelMessages {\n\t\t//fmt.Printf(\"is no channel message, resetting status\\n\")\n\t\treturn raw\n\t}"),
 ("c01-smpte-subframes-7bit", "C01,C02", "smf/reader.go",
  "\tt.SubFrames = byte(raw & uint16(255))", "\tt.SubFrames = byte(raw & uint16(127))"),
 ("c02-f7-does-not-clear-running-status", "C02", "internal/runningstatus/runningstatus.go",
  "\tif canary == 0xFF || canary == 0xF0 || canary == 0xF7 {", "\tif canary == 0xFF || canary == 0xF0 {"),
 ("c02-alien-chunk-skip-8bit-length", "C02", "smf/reader.go",
  "io.CopyN(ioutil.Discard, r.input, int64(r.expectedChunkLength))", "io.CopyN(ioutil.Discard, r.input, int64(r.expectedChunkLength&0xFF))"),
 ("c02-vlq-reader-drops-4th-byte-bits", "C02,C03", "internal/utils/utils.go",
  "\t\tresult = result << 7\n\n\t\tnum, _ = reader.Read(buffer)", "\t\tresult = (result << 7) & 0x1FFFFF\n\n\t\tnum, _ = reader.Read(buffer)"),
 ("c03-vlq-encoder-boundary", "C03,C01", "internal/utils/utils.go",
  "\tfor quo > 0 {\n\t\tout = append(out, byte(quo)|vlqContinue)", "\tfor quo > 0 && len(out) < 4 {\n\t\tout = append(out, byte(quo)|vlqContinue)"),
 ("c04-timestamp-one-chunk-late", "C04", "drivers/reader.go",
  "\tr.setDelta(deltaMilliSeconds) // int32(math.Round(deltaSeconds * 1000))\n\n\t//fmt.Printf(\"got % X\\n\", bt)\n\n\tfor _, b := range bt {\n\t\t// => realtime message\n\t\tr.eachByte(b)\n\n\t}\n",
  "\tfor _, b := range bt {\n\t\t// => realtime message\n\t\tr.eachByte(b)\n\n\t}\n\tr.setDelta(deltaMilliSeconds)\n"),
 ("c04-realtime-resets-pending-data-byte", "C04,C06", "drivers/reader.go",
  "\tif b >= 0xF8 {\n\t\t//r.OnMsg([]byte{b, 0, 0}, r.ts_ms)\n", "\tif b >= 0xF8 {\n\t\tr.issetBf = false\n"),
 ("c06-system-common-keeps-running-status", "C06", "drivers/reader.go",
  "\tcase b > 0xF0 && b < 0xF7:\n\t\tr.statusByte = 0\n\t\tr.issetBf = false // reset buffer", "\tcase b > 0xF0 && b < 0xF7:\n\t\tr.issetBf = false // reset buffer"),
 ("c06-sysex-exactly-buffer-size-dropped", "C04,C06", "drivers/reader.go",
  "\t\t\tif r.HandleSysex && r.sysexlen < len(r.sysexBf) {", "\t\t\tif r.HandleSysex && r.sysexlen < len(r.sysexBf)-1 {"),
 ("c07-noteoffvelocity-clamp-dropped", "C07", "channel.go",
  "func NoteOffVelocity(channel, key, velocity uint8) Message {\n\tif channel > 15 {\n\t\tchannel = 15\n\t}\n\n\tif key > 127 {\n\t\tkey = 127\n\t}\n\tif velocity > 127 {\n\t\tvelocity = 127\n\t}",
  "func NoteOffVelocity(channel, key, velocity uint8) Message {\n\tif channel > 15 {\n\t\tchannel = 15\n\t}\n\n\tif key > 127 {\n\t\tkey = 127\n\t}"),
 ("c07-polyaftertouch-accessor-swaps-fields", "C07", "message.go",
  "\t\tvar _key, _pressure = utils.ParseTwoUint7(m[1], m[2])", "\t\tvar _pressure, _key = utils.ParseTwoUint7(m[1], m[2])"),
 ("c08-metachannel-length-guard-removed", "C08", "smf/message.go",
  "\tif !m.Is(MetaChannelMsg) {\n\t\treturn false\n\t}\n\n\tif len(m) != 4 {\n\t\treturn false\n\t}\n", "\tif !m.Is(MetaChannelMsg) {\n\t\treturn false\n\t}\n"),
 ("c08-getnoteon-accepts-noteoff", "C08,C07", "message.go",
  "func (m Message) GetNoteOn(channel, key, velocity *uint8) (is bool) {\n\tif !m.Is(NoteOnMsg) {", "func (m Message) GetNoteOn(channel, key, velocity *uint8) (is bool) {\n\tif !m.Is(NoteOnMsg) && !(m.Is(NoteOffMsg) && len(m) == 3 && m[2] == 0x40) {"),
 ("c10-reader-treats-any-error-as-eof", "C10,C05", "smf/reader.go",
  "\tif err == ErrFinished || err == io.EOF {\n\t\treturn rd.SMF, nil\n\t}\n\n\tif err != nil {\n\t\treturn nil, err\n\t}", "\tif err == ErrFinished || err == io.EOF || err != nil {\n\t\treturn rd.SMF, nil\n\t}"),
 ("c10-last-chunk-error-swallowed", "C10", "smf/smf.go",
  "\t\terr = wr.writeChunkTo(wr.output)\n\n\t\tif err != nil {\n\t\t\treturn wr.output.size, err\n\t\t}", "\t\terr = wr.writeChunkTo(wr.output)\n\n\t\tif err != nil && wr.tracksProcessed+1 < wr.numTracks {\n\t\t\treturn wr.output.size, err\n\t\t}"),
 ("c11-ticks-truncates", "C11,C13", "smf/timeformat.go",
  "\tticks = uint32(math.Round((float64(d.Nanoseconds()) / 1000000 * float64(uint16(q)) * fractionalBPM) / 60000))", "\tticks = uint32((float64(d.Nanoseconds()) / 1000000 * float64(uint16(q)) * fractionalBPM) / 60000)"),
 ("c12-default-port-ignored-for-track-0", "C12", "smf/track.go",
  "\t\t\t\t\tif def, hasDef := trackouts[-1]; hasDef {", "\t\t\t\t\tif def, hasDef := trackouts[-1]; hasDef && te.TrackNo > 0 {"),
 ("c12-sysex-and-meta-filter-swapped", "C12", "smf/message.go",
  "func (m Message) IsPlayable() bool {\n\tif m.IsMeta() {\n\t\treturn false\n\t}\n", "func (m Message) IsPlayable() bool {\n\tif m.IsMeta() && len(m) > 3 {\n\t\treturn false\n\t}\n\tif m.IsMeta() {\n\t\treturn true\n\t}\n"),
 ("c13-timing-drift-on-skipped-messages", "C13", "smf/track.go",
  "\t\tif !msg.Is(midi.ChannelMsg) && !msg.Is(midi.SysExMsg) {\n\t\t\treturn\n\t\t}", "\t\tif !msg.Is(midi.ChannelMsg) && !msg.Is(midi.SysExMsg) {\n\t\t\tabsmillisec = absms\n\t\t\treturn\n\t\t}"),
 ("c14-timing-clock-option-also-drops-start", "C14", "drivers/testdrv/driver.go",
  "\t\tif msg.Is(midi.TimingClockMsg) && !conf.TimeCode {", "\t\tif msg.IsOneOf(midi.TimingClockMsg, midi.StartMsg) && !conf.TimeCode {"),
 # precision worse than the field's resolution (floor alone stays within it: see benign b13)
 ("c15-tempo-two-microseconds-coarse", "C15", "smf/meta.go",
  "\tr := uint32(math.Round(bpmFac / bpm))", "\tr := uint32(math.Round(bpmFac/bpm/4)) * 4"),
 ("c15-denominator-128", "C15", "smf/helpers.go",
  "\tif bin == 0 {\n\t\treturn 1\n\t}\n\treturn 2 << (bin - 1)", "\tif bin == 0 {\n\t\treturn 1\n\t}\n\tif bin > 6 {\n\t\tbin = 6\n\t}\n\treturn 2 << (bin - 1)"),
 ("c15-minor-flat-keys-rotated", "C15", "internal/utils/utils.go",
  "\tif mode == minorMode {\n\t\ttmp -= 3\n\t}", "\tif mode == minorMode {\n\t\ttmp -= 3\n\t\tif sharpsOrFlats < -5 {\n\t\t\ttmp -= 1\n\t\t}\n\t}"),
 ("c16-lastabs-not-reset-per-channel", "C16", "smf/smf.go",
  "\t\t\tvar t Track\n\t\t\tlastAbs = 0\n", "\t\t\tvar t Track\n"),
 ("c16-close-swallows-late-meta", "C16", "smf/smf.go",
  "\tfor _, ev := range metaTrack {\n\t\tdelta := uint32(ev.AbsTicks - lastAbs)\n\t\tmetaTarget.Add(delta, ev.Message)", "\tfor i, ev := range metaTrack {\n\t\tdelta := uint32(ev.AbsTicks - lastAbs)\n\t\tif i > 40 {\n\t\t\tmetaTarget.Close(0)\n\t\t}\n\t\tmetaTarget.Add(delta, ev.Message)"),
 ("c17-midicat-send-without-lock", "C17", "drivers/midicatdrv/out.go",
  "func (o *out) Send(b []byte) error {\n\to.Lock()\n\tdefer o.Unlock()\n", "func (o *out) Send(b []byte) error {\n"),
 ("c17-midicat-stop-does-not-clear-listener", "C17", "drivers/midicatdrv/in.go",
  "\t\t\tcase <-shouldStopListening:\n\t\t\t\to.Lock()\n\t\t\t\to.listener = nil\n\t\t\t\to.Unlock()", "\t\t\tcase <-shouldStopListening:"),
 ("c17-testdrv-close-out-keeps-sending", "C17", "drivers/testdrv/driver.go",
  "func (f *out) Send(bt []byte) error {\n\tif !f.isOpen {\n\t\treturn drivers.ErrPortClosed\n\t}", "func (f *out) Send(bt []byte) error {\n\tif !f.isOpen && f.rd == nil {\n\t\treturn drivers.ErrPortClosed\n\t}"),
 # (lower-case hex in the encoder is harmless: the decoder accepts both cases; see benign ag-C19-b)
 ("c17-midicat-last-byte-dropped", "C17", "drivers/midicatdrv/out.go",
  "fmt.Fprintf(o.wr, \"%d %X\\n\", 0, b)", "fmt.Fprintf(o.wr, \"%d %X\\n\", 0, append([]byte{}, b[:len(b)-1]...))"),
 ("c18-checksum-zero-accepted", "C18", "sysex/sysex.go",
  "\tif checksum != s.Checksum() {", "\tif checksum != s.Checksum() && checksum != 0 {"),
 ("c18-goto-frame-subframe-swapped", "C18", "mmc/mmc.go",
  "\tg.Frame = bt[10]\n\tg.SubFrame = bt[11]", "\tg.Frame = bt[11]\n\tg.SubFrame = bt[10]"),
 ("c19-second-separator-tolerated", "C19", "drivers/midicat/midicat.go",
  "\t\t\tif deltaRead {\n\t\t\t\terr = fmt.Errorf(\"malformed line: more than one separator\")\n\t\t\t\tcontinue\n\t\t\t}", "\t\t\tif deltaRead {\n\t\t\t\tcontinue\n\t\t\t}"),
 ("c19-error-returns-mid-line", "C19", "drivers/midicat/midicat.go",
  "\t\t\tdeltams, err = convertDelta(deltaBf)\n\t\t\tdeltaRead = true\n\t\t\tcontinue", "\t\t\tdeltams, err = convertDelta(deltaBf)\n\t\t\tif err != nil {\n\t\t\t\treturn nil, -1, err\n\t\t\t}\n\t\t\tdeltaRead = true\n\t\t\tcontinue"),
 ("c20-noteoff-one-32nd-early", "C20", "sequencer/event.go",
  "\tend = start + int64(ticks.Ticks32th()*uint32(e.Duration))", "\tend = start + int64(ticks.Ticks32th()*uint32(e.Duration-1))"),
 ("c20-timesig-change-back-to-44-missed", "C20", "sequencer/song.go",
  "\t\tif b.TimeSig != [2]uint8{0, 0} && b.TimeSig != timesig {", "\t\tif b.TimeSig != [2]uint8{0, 0} && b.TimeSig != timesig && b.TimeSig != [2]uint8{4, 4} {"),
 ("c20-closing-delta-from-bar-count", "C20", "sequencer/song.go",
  "\t\tt.Close(uint32(s.lastTick - lasttick))\n\t\tsm.Add(t)\n\n\t}", "\t\tt.Close(uint32(s.lastTick - lasttick))\n\t\tif len(s.bars) > 9 {\n\t\t\tt[len(t)-1].Delta = 0\n\t\t}\n\t\tsm.Add(t)\n\n\t}"),
 ("c03-stale-track-count", "C03,C01", "smf/smf.go",
  "\ts.numTracks = uint16(len(s.Tracks))\n\tif s.numTracks == 0 {\n\t\treturn 0, fmt.Errorf(\"no track added\")\n\t}",
  "\tif s.numTracks == 0 {\n\t\ts.numTracks = uint16(len(s.Tracks))\n\t}\n\tif s.numTracks == 0 {\n\t\treturn 0, fmt.Errorf(\"no track added\")\n\t}"),
 ("c11-tempo-change-lookup-off-by-one", "C11", "smf/tempochanges.go",
  "\t\tif tc.AbsTicks > absTicks {\n\t\t\tbreak\n\t\t}", "\t\tif tc.AbsTicks >= absTicks {\n\t\t\tbreak\n\t\t}"),
 ("c14-active-sense-passes-when-sysex-on", "C14", "drivers/testdrv/driver.go",
  "\t\tif msg.Is(midi.ActiveSenseMsg) && !conf.ActiveSense {", "\t\tif msg.Is(midi.ActiveSenseMsg) && !conf.ActiveSense && !conf.SysEx {"),
 ("c08-realtime-range-includes-noteon", "C08", "type.go",
  "\t\tcase RealTimeMsg:\n\t\t\treturn t <= reservedRealTimeMsg14", "\t\tcase RealTimeMsg:\n\t\t\treturn t <= NoteOnMsg"),
 ("c05-vlq-eof-is-clean-end", "C05,C10", "internal/utils/utils.go",
  "\tif num == 0 && !first {\n\t\treturn result, ErrUnexpectedEOF\n\t}", "\tif num == 0 && !first {\n\t\treturn result, io.EOF\n\t}"),
 ("sweep-reader-tick-counter-not-reset-per-track", "C11", "smf/reader.go",
  "\t\t\tr.Tracks[tr].Close(r.deltatime)\n\t\t\tabsTicks = 0\n", "\t\t\tr.Tracks[tr].Close(r.deltatime)\n"),
 ("sweep-smf-isoneof-always-false", "C08", "smf/message.go",
  "func (m Message) IsOneOf(checkers ...midi.Type) bool {\n\tfor _, checker := range checkers {\n\t\tif m.Is(checker) {\n\t\t\treturn true", "func (m Message) IsOneOf(checkers ...midi.Type) bool {\n\tfor _, checker := range checkers {\n\t\tif m.Is(checker) {\n\t\t\treturn false"),
 ("sweep-readuint32-third-byte-shift", "C02", "internal/utils/utils.go",
  "\tval |= uint32(b[1]) << 16\n\tval |= uint32(b[0]) << 24", "\tval |= uint32(b[1]) << 17\n\tval |= uint32(b[0]) << 24"),
]
out = os.path.join(os.path.dirname(os.path.abspath(__file__)), "mutants")
os.makedirs(out, exist_ok=True)
wt = tempfile.mkdtemp(prefix="mk-", dir="/root/scratch"); os.rmdir(wt)
subprocess.run(["git", "-C", "/repo", "worktree", "add", "--detach", "-q", wt, "HEAD"], check=True)
bad = 0
try:
    for name, props, f, old, new in M:
        p = os.path.join(wt, "v2", f)
        s = open(p).read()
        if s.count(old) != 1:
            print("MISMATCH", name, s.count(old)); bad += 1; continue
        open(p, "w").write(s.replace(old, new))
        d = subprocess.run(["git", "-C", wt, "diff"], stdout=subprocess.PIPE, text=True).stdout
        open(os.path.join(out, name + ".patch"), "w").write(d)
        open(os.path.join(out, name + ".props"), "w").write(props + "\n")
        subprocess.run(["git", "-C", wt, "checkout", "-q", "--", "."], check=True)
finally:
    subprocess.run(["git", "-C", "/repo", "worktree", "remove", "--force", wt]); subprocess.run(["git", "-C", "/repo", "worktree", "prune"])
print(len(M), "mutants,", bad, "mismatches")
